#!/usr/bin/env python3
"""Regenerates MANIFEST.json from the table below (kept in one place so it stays consistent)."""
import json, subprocess

SIM = {
 "C01": ("exploration", "seeded schedule search (random walk / PCT / site-biased / round-robin / scripted segments, stall faults) over small concurrent programs on the real code, plus crowd scenarios (up to 38 simultaneous readers of one tree bin); per-key Wing-Gong linearizability check of the recorded invoke/return history against Option<value>, incl. the quiescent state", "5/C01"),
 "C03": ("exploration", "seeded schedule search with reclamation pressure (collector batch 1-4, flush/refresh, long-lived guards); canary re-read of every handed-out reference under its still-live guard, poisoning quarantine allocator (double free, write-after-free), crash capture", "5/C03"),
 "C04": ("exploration", "seeded schedule search with reclamation pressure; instance ledger: every key/value instance (incl. clones made by the map) dropped exactly once after teardown, none dropped while a guard older than the displacing call is live, refused values returned intact", "5/C04"),
 "C05": ("exploration", "structure inspector + API agreement evaluated at the quiescent end of every simulated run (iter = lookups = len, placement, no duplicates, no forwarding marker / half-finished resize, locks free)", "5/C05"),
 "C06": ("exploration", "seeded schedule search on tree-bin shapes; full red-black + list/tree agreement validation through the inspector at quiescence, comparison counting of lookups against 4*log2(n+1)+2", "5/C06"),
 "C07": ("exploration", "seeded schedule search with step-wise iterators, whole iterations and clone() of the shared collection interleaved with resizes/updates; weak-consistency oracle over the stamped history (safety via iterator-view linearizability, completeness for untouched keys)", "5/C07"),
 "C08": ("exploration", "seeded schedule search on compute-heavy programs; compute_if_present as an atomic read-modify-write in the linearizability checker (saw/out), closure-call count, closed-form counter check", "5/C08"),
 "C10": ("exploration", "seeded schedule search with stride/ncpu knobs forcing several helpers, plus helper crowds (9-38 threads meeting one resize); resize ledger from site events (each old bin migrated once, one publication per generation, generations disjoint and doubling) + no leftover resize state + teardown", "5/C10"),
 "C11": ("exploration", "scheduler-level blocking model: deadlock = no runnable thread; livelock = operations unfinished after the fair round-robin tail that follows the adversarial phase; spurious unparks and stalls injected", "5/C11"),
 "C12": ("fault_enumeration", "writer stalled at every one of its decision points in turn (enumerated after a dry run), reader run alone: must finish within a per-operation step bound without reaching a lock/park/spin seam, result admissible", "5/C12"),
 "C13": ("exploration", "seeded schedule search of retain/retain_force raced with replacements; predicate log turned into CondRemove(v)/ForceRemove operations of the linearizability checker", "5/C13"),
 "C14": ("exploration", "seeded schedule search of two program families: removal-only programs (no resize event, unchanged table length under any schedule) and inserting programs over a bounded key universe (table never larger than distinct keys + removals in flight justify; entry counter = entries at quiescence); single-client half: capacities, reservations, operation sequences and the overfull-bin rule against a capacity reference model", "5/C14"),
 "C18": ("fault_enumeration", "panic injected at the i-th callback invocation for every i (enumerated after a dry run): panic reaches exactly one caller, entry unchanged (linearizability with the panicked call as a no-op), locks free and structure well formed at quiescence", "5/C18"),
}

SIM.update({
 "C02": ("exploration", "single-client runs of the simulator (no schedule in this property): generated operation sequences over the whole public surface executed step by step against BTreeMap/BTreeSet, all hashers, capacities, both facades, collector batch sizes; full-content comparison after every step", "5/C02"),
 "C09": ("fault_enumeration", "complete enumeration of every public guard-taking method x structural state (incl. mid-resize left by a stalled helper) x foreign-argument position, in two builds of flurry (with and without its debug assertions), run as simulated threads with the pointer seam witnessing which collector's guard protected each load/retire; method table cross-checked against the sources", "5/C09"),
 "C15": ("exploration", "vector-clock happens-before monitor fed by the orderings flurry passes at its seams during seeded simulated runs (every cross-thread payload read must be ordered after the payload's initialisation); plus Miri many-seeds (weak-memory emulation, data-race detector) on the unhooked crate", "5/C15"),
})

SIM.update({
 "C19": ("exploration", "rayon half: flurry's par_extend / from_par_iter driven through rayon's ParallelIterator plumbing by a simulated pool whose workers are scheduled threads of the simulator (seeded schedule search, stalls), judged as blind inserts by the linearizability checker plus exact key-set / supplied-value oracle for parallel collects, drop ledger and quarantine allocator; serde half: Serialize/Deserialize through serde_json over harness-owned byte streams with injected short transfers, EINTR, hard errors and EOF at chosen offsets on generated documents (repeated keys; input generation, no schedule), oracle: equal collection / error / never a panic, no leak on error paths", "5/C19"),
})

NA = [
 ("C16", "compile-time borrow-checker verdict on program texts; nothing executes, so there is no schedule, clock or fault for a simulator to control"),
 ("C17", "compile-time trait-bound verdict on program texts; nothing executes"),
]
PENDING = []

def main():
    commits = subprocess.run(["git","-C","/repo","log","--format=%h %s"],capture_output=True,text=True).stdout.splitlines()
    hooks = [c.split()[0] for c in commits if c.split(' ',1)[1].startswith("verif hooks")]
    checks = []
    for pid,(level,technique,ref) in sorted(SIM.items()):
        checks.append({
            "property_id": pid,
            "quick_cmd": f"./check {pid} quick",
            "thorough_cmd": f"./check {pid} thorough",
            "evidence_file": f"/verif/evidence/{pid}.json",
            "replay_cmd_template": "./check replay {path}",
            "engine": "flurry-sim",
            "level_claimed": {"category": level, "text": technique, "design_ref": f"DESIGN.md section {ref}"},
            "level_note": "sampling over seeds, not proof; yield points are flurry's seams (pointer cells, control words, bin locks, park/unpark, spin sites), seize and parking_lot internals run as atomic steps; executions are sequentially consistent; harness models/checkers trusted (validated by seeded mutations)",
            "technique": "deterministic simulation with fault injection: " + technique.split(';')[0],
        })
    m = {
        "version": 1,
        "setup_cmd": "./setup.sh",
        "hooks": {
            "guard": "--cfg flurry_verif",
            "enable": "rustflags = [\"--cfg\", \"flurry_verif\"] in /verif/sim/.cargo/config.toml; /verif/sim path-depends on /repo, so every check rebuilds from /repo's working tree",
            "baseline_off_cmd": "cd /repo && cargo test --workspace --no-fail-fast --offline",
            "source_commits": hooks,
            "add_only": True,
        },
        "engines": [
            {"name": "miri-many-seeds", "path": "/verif/miri", "serves_properties": ["C03", "C04", "C15"], "kind_free_text": "secondary engine: Miri's seeded scheduler and weak-memory emulation over small argv-derived scenarios on the unhooked crate (use-after-free, data races, leaks); driven by /verif/miri_check.py after the simulator part of the check"},
            {"name": "flurry-sim", "path": "/verif/sim", "serves_properties": sorted(SIM.keys()), "kind_free_text": "deterministic simulator: real OS threads from a pool, one baton, every seam of flurry is a decision point driven by one PRNG or a recorded trace; fault injection (preemption, stalls, spurious unparks, reclamation pressure, callback panics, knob skew); oracles over recorded histories; seeded search, ddmin minimiser, replay files"},
        ],
        "checks": checks,
        "not_applicable": [{"property_id": p, "reason": r} for p,r in NA+PENDING],
        "notes": "See DESIGN.md. KNOWN_FINDINGS.txt lists repaired defects (fixed:) and recorded ones (finding:). VERIF_SEED selects the seed (default 20261004); VERIF_RUNS overrides the number of runs; VERIF_WORKERS the worker count.",
    }
    json.dump(m, open("/verif/MANIFEST.json","w"), indent=1)
    print("wrote MANIFEST.json with", len(checks), "checks")

if __name__ == "__main__":
    main()
