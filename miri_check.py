#!/usr/bin/env python3
"""Engine E2 driver: runs the Miri scenarios of /verif/miri for one property and tier.

Miri is a deterministic simulator of the Rust abstract machine (seeded scheduler, seeded
weak-memory store buffers); it runs the UNHOOKED crate from /repo and reports what the baton
simulator cannot see natively: use-after-free on any access, C++11 data races, leaks.

usage: miri_check.py <prop> <quick|thorough>      exit 0 held / 1 violation / 2 harness error
       miri_check.py replay <file>
"""
import json, os, re, subprocess, sys, time

ROOT = os.path.dirname(os.path.abspath(__file__))
MIRI_DIR = os.path.join(ROOT, "miri")
# which classes of Miri error belong to which property
CLASSES = {
    "C15": [("data-race", re.compile(r"Data race detected"))],
    "C03": [("use-after-free", re.compile(r"has been freed|dangling|out-of-bounds|use-after-free|uninitialized|invalid (reference|value)")),
            ("payload-torn", re.compile(r"payload torn"))],
    "C04": [("leak", re.compile(r"memory leaked|leaked or dropped twice")),
            ("double-free", re.compile(r"double.free|deallocating while item is|already been (freed|deallocated)"))],
}
SCENARIOS = {
    "C15": ["publish", "forward", "resize", "tree"],
    "C03": ["collect", "resize", "tree", "publish"],
    "C04": ["collect", "tree", "resize"],
}

def run(scenario, argv_seed, lo, hi, leak_check):
    flags = f"-Zmiri-many-seeds={lo}..{hi} -Zmiri-permissive-provenance -Zmiri-preemption-rate=0.05"
    if not leak_check:
        flags += " -Zmiri-ignore-leaks"
    env = dict(os.environ)
    env["MIRIFLAGS"] = flags
    env["CARGO_NET_OFFLINE"] = "true"
    for k in ("CARGO_TARGET_DIR", "RUSTFLAGS", "CARGO_ENCODED_RUSTFLAGS"):
        env.pop(k, None)
    t0 = time.time()
    p = subprocess.run(["cargo", "+nightly", "miri", "run", "--offline", "--", scenario, str(argv_seed)],
                       cwd=MIRI_DIR, env=env, capture_output=True, text=True, timeout=3000)
    out = p.stdout + p.stderr
    return p.returncode, out, time.time() - t0, flags

def classify(prop, out):
    errs = [l for l in out.splitlines() if l.startswith("error") or "panicked at" in l or "payload torn" in l or "leaked or dropped twice" in l]
    text = "\n".join(errs)
    for cls, rx in CLASSES[prop]:
        if rx.search(out) and any(rx.search(l) for l in out.splitlines() if l.startswith("error") or "panicked" in l or "assertion" in l or "torn" in l or "leaked" in l):
            return cls, text
    return None, text

def main():
    if sys.argv[1] == "replay":
        v = json.load(open(sys.argv[2]))
        rc, out, dt, flags = run(v["scenario"], v["argv_seed"], v["miri_seeds"][0], v["miri_seeds"][1], v["property"] == "C04")
        cls, text = classify(v["property"], out)
        if cls == v["class"]:
            print(f"REPRODUCED property={v['property']} class={cls}")
            print(text[:2000])
            sys.exit(1)
        print(f"NOT-REPRODUCED property={v['property']}")
        sys.exit(0)
    prop, tier = sys.argv[1], sys.argv[2]
    base = int(os.environ.get("VERIF_SEED", "20261004"))
    nseeds = int(os.environ.get("VERIF_MIRI_SEEDS", "64" if tier == "thorough" else "8"))
    argv_seeds = [base % 1000 + 1] if tier != "thorough" else [base % 1000 + 1, base % 1000 + 2, base % 1000 + 3]
    total = 0
    wall = 0.0
    other = []
    per = {}
    for sc in SCENARIOS[prop]:
        for a in argv_seeds:
            try:
                rc, out, dt, flags = run(sc, a, 0, nseeds, prop == "C04")
            except subprocess.TimeoutExpired:
                print(f"harness error: Miri scenario {sc} timed out", file=sys.stderr)
                sys.exit(2)
            wall += dt
            tried = len(re.findall(r"^Trying seed: ", out, re.M))
            total += tried
            per[f"{sc}/{a}"] = {"miri_seeds": tried, "wall_s": round(dt, 1), "exit": rc}
            if "could not compile" in out or "error: could not find" in out or (tried == 0 and rc != 0):
                print(out[-3000:])
                print("harness error: Miri did not run", file=sys.stderr)
                sys.exit(2)
            if rc != 0:
                cls, text = classify(prop, out)
                if cls is None:
                    # an error of a class that another property's check owns
                    other.append(f"{sc}: " + (text.splitlines()[0] if text else "non-zero exit"))
                    continue
                os.makedirs(os.path.join(ROOT, "replays"), exist_ok=True)
                path = os.path.join(ROOT, "replays", f"{prop}-miri-{cls}-{sc}-{a}.json")
                detail = "\n".join([l for l in out.splitlines() if not l.startswith("Trying seed")][:60])
                json.dump({"format": "flurry-miri-replay-1", "property": prop, "class": cls, "scenario": sc, "argv_seed": a,
                           "miri_seeds": [0, nseeds], "miriflags": flags, "detail": detail,
                           "how_to_replay": f"cd {MIRI_DIR} && MIRIFLAGS='{flags}' cargo +nightly miri run --offline -- {sc} {a}"}, open(path, "w"), indent=1)
                print(f"Miri scenario {sc} (argv seed {a}, miri seeds 0..{nseeds}): {cls}")
                print(detail[:3000])
                update_evidence(prop, tier, total, wall, per, other, 1)
                print(f"VIOLATION property={prop} replay={path}")
                sys.exit(1)
    update_evidence(prop, tier, total, wall, per, other, 0)
    print(f"miri: {total} seeded executions of {len(SCENARIOS[prop])} scenarios in {wall:.0f}s, no {'/'.join(c for c,_ in CLASSES[prop])} reported" + (f" (errors owned by other properties seen: {other})" if other else ""))
    sys.exit(0)

def update_evidence(prop, tier, total, wall, per, other, viol):
    path = os.path.join(ROOT, "evidence", f"{prop}.json")
    try:
        ev = json.load(open(path))
    except Exception:
        return
    ev["coverage"]["miri"] = {
        "engine": "Miri (cargo +nightly miri run) on the unhooked crate built from /repo; deterministic seeded scheduler and weak-memory emulation",
        "seeded_executions": total, "wall_s": round(wall, 1), "scenarios": per,
        "reports_for_this_property": [c for c, _ in CLASSES[prop]],
        "errors_of_other_properties_seen": other,
    }
    ev["wall_s"] = ev.get("wall_s", 0) + wall
    if viol:
        ev["violations"] = ev.get("violations", 0) + viol
    json.dump(ev, open(path, "w"), indent=1)

if __name__ == "__main__":
    main()
