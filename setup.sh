#!/bin/sh
# Builds the simulator from files on disk only (offline).
cd "$(dirname "$0")/sim" || exit 2
export CARGO_NET_OFFLINE=true
mkdir -p target
cargo build --release --offline 2>&1 | tail -3
