#!/bin/sh
# Builds the simulator from files on disk only (offline).
cd "$(dirname "$0")/sim" || exit 2
export CARGO_NET_OFFLINE=true
unset CARGO_TARGET_DIR CARGO_BUILD_TARGET_DIR RUSTFLAGS CARGO_ENCODED_RUSTFLAGS
mkdir -p target
cargo build --release --offline 2>&1 | tail -3
# warm the secondary engine (Miri) so that the first check does not pay for its build
cd ../miri && MIRIFLAGS="-Zmiri-permissive-provenance" cargo +nightly miri run --offline -- collect 1 2>&1 | tail -2
exit 0
