//! The seam for flurry's rayon entry points (C19): rayon's `ParallelIterator` is a plug-in
//! interface - whoever implements `drive_unindexed` decides where the pieces of the work run.
//! `SimParIter` cuts its items into parts, splits the consumer it is handed (flurry's real
//! `for_each_init(|| self.guard(), |guard, (k, v)| self.insert(k, v, guard))` closure chain,
//! wrapped by rayon's real adaptors) once per part and publishes the parts to a pool whose
//! workers are simulated threads: a thread executing `Op::ParHelp` takes published parts, the
//! publishing thread runs what nobody took and then waits for the parts in flight. rayon-core's
//! work-stealing pool itself is not run (it has no scheduler seam); which thread runs which part,
//! and every interleaving of the parts with each other and with everything else, is decided by
//! the simulator's scheduler.

use crate::sched;
use rayon::iter::plumbing::{Consumer, Folder, Reducer, UnindexedConsumer};
use rayon::iter::ParallelIterator;
use std::collections::VecDeque;
use std::sync::atomic::{AtomicUsize, Ordering};
use std::sync::Mutex;

pub type Job = Box<dyn FnOnce() + Send + 'static>;

#[derive(Default)]
pub struct Pool {
    pub pending: Mutex<VecDeque<Job>>,
    /// parts published / run by a helper thread / run by the publishing thread itself
    pub published: AtomicUsize,
    pub by_helper: AtomicUsize,
    pub by_owner: AtomicUsize,
    /// times a publishing thread had to wait for a part still running elsewhere
    pub owner_waits: AtomicUsize,
}

impl Pool {
    /// A worker's turn: run up to `n` published parts. Returns how many were run.
    pub fn help(&self, n: usize) -> usize {
        let mut ran = 0;
        while ran < n {
            let job = self.pending.lock().unwrap().pop_front();
            match job {
                Some(j) => {
                    self.by_helper.fetch_add(1, Ordering::Relaxed);
                    j();
                    ran += 1;
                }
                None => break,
            }
        }
        ran
    }
}

pub struct SimParIter<'p, T> {
    pub parts: Vec<Vec<T>>,
    pub pool: &'p Pool,
}

/// Cuts `items` into `parts` consecutive pieces (some may be empty when there are few items).
pub fn cut<T>(items: Vec<T>, parts: usize) -> Vec<Vec<T>> {
    let parts = parts.max(1);
    let n = items.len();
    let mut out: Vec<Vec<T>> = (0..parts).map(|_| Vec::new()).collect();
    for (i, it) in items.into_iter().enumerate() {
        out[(i * parts) / n.max(1)].push(it);
    }
    out
}

fn run_part<T, C: Consumer<T>>(c: C, items: Vec<T>) -> C::Result {
    let mut f = c.into_folder();
    for it in items {
        if f.full() {
            break;
        }
        f = f.consume(it);
    }
    f.complete()
}

impl<'p, T: Send> ParallelIterator for SimParIter<'p, T> {
    type Item = T;

    fn drive_unindexed<C>(self, consumer: C) -> C::Result
    where
        C: UnindexedConsumer<Self::Item>,
    {
        let n = self.parts.len();
        let pool = self.pool;
        // one consumer per part, left to right, and the reducers that join neighbours
        let mut consumers: Vec<C> = Vec::with_capacity(n);
        let mut reducers: Vec<C::Reducer> = Vec::with_capacity(n);
        let rest = consumer;
        for _ in 1..n {
            reducers.push(rest.to_reducer());
            consumers.push(rest.split_off_left());
        }
        consumers.push(rest);

        type Slot<R> = Mutex<Option<std::thread::Result<R>>>;
        let slots: Vec<Slot<C::Result>> = (0..n).map(|_| Mutex::new(None)).collect();
        let remaining = AtomicUsize::new(n.saturating_sub(1));
        let addr = &remaining as *const AtomicUsize as usize;

        let mut own: Option<(C, Vec<T>)> = None;
        for (i, (c, items)) in consumers.into_iter().zip(self.parts).enumerate() {
            if i == 0 {
                own = Some((c, items));
                continue;
            }
            let slots = &slots;
            let remaining = &remaining;
            let job: Box<dyn FnOnce() + Send + '_> = Box::new(move || {
                let r = std::panic::catch_unwind(std::panic::AssertUnwindSafe(|| run_part(c, items)));
                *slots[i].lock().unwrap() = Some(r);
                remaining.fetch_sub(1, Ordering::SeqCst);
                sched::harness_wake(addr);
            });
            // safety: this function does not return (or unwind) before `remaining` is zero, i.e.
            // before every published part has run to completion; the borrows outlive the jobs
            let job: Job = unsafe { std::mem::transmute::<Box<dyn FnOnce() + Send + '_>, Job>(job) };
            pool.published.fetch_add(1, Ordering::Relaxed);
            pool.pending.lock().unwrap().push_back(job);
        }

        let (c0, items0) = own.expect("at least one part");
        let r0 = std::panic::catch_unwind(std::panic::AssertUnwindSafe(|| run_part(c0, items0)));
        *slots[0].lock().unwrap() = Some(r0);

        // what nobody took runs here, like a rayon job that was never stolen
        loop {
            let job = pool.pending.lock().unwrap().pop_front();
            match job {
                Some(j) => {
                    pool.by_owner.fetch_add(1, Ordering::Relaxed);
                    j();
                }
                None => break,
            }
        }
        while remaining.load(Ordering::SeqCst) > 0 {
            pool.owner_waits.fetch_add(1, Ordering::Relaxed);
            sched::harness_block(addr);
        }

        let mut results: Vec<C::Result> = Vec::with_capacity(n);
        let mut panic = None;
        for s in slots {
            match s.into_inner().unwrap() {
                Some(Ok(r)) => results.push(r),
                Some(Err(p)) => panic = Some(p),
                None => unreachable!("a published part did not run"),
            }
        }
        if let Some(p) = panic {
            std::panic::resume_unwind(p);
        }
        // reduce right to left with the reducer taken at each split
        let mut acc = results.pop().expect("at least one result");
        while let Some(left) = results.pop() {
            let red = reducers.pop().expect("one reducer per split");
            acc = red.reduce(left, acc);
        }
        acc
    }
}
