//! Orchestrator, worker, replay and minimiser.

use crate::exec::{self, ExecOpts, RunResult};
use crate::oracle::Violation;
use crate::program::*;
use crate::props::{self, JudgeStats, Plan};
use crate::rng::{splitmix, Rng};
use crate::sched::{self, RunSetup, Strategy, MAXT, NEV, TE};
use crate::{CUR_INDEX, CUR_SEED};
use serde_json::{json, Value};
use std::collections::{BTreeMap, BTreeSet};
use std::io::{BufRead, BufReader, Write};
use std::process::{Command, Stdio};
use std::sync::atomic::Ordering;
use std::time::Instant;

pub const DEFAULT_SEED: u64 = 20261004;
/// Root of the verification tree this binary belongs to: `$VERIF_DIR`, else derived from the
/// location of the executable (`<root>/sim/target/release/flurry-sim`), else `/verif`. A
/// snapshot started by `vp run` therefore writes its evidence and replays into the snapshot.
pub fn verif_dir() -> String {
    if let Ok(d) = std::env::var("VERIF_DIR") {
        return d;
    }
    if let Ok(exe) = std::env::current_exe() {
        if let Some(root) = exe.ancestors().nth(4) {
            if root.join("MANIFEST.json").exists() || root.join("sim").exists() {
                return root.to_string_lossy().to_string();
            }
        }
    }
    "/verif".to_string()
}

pub fn base_seed() -> u64 {
    std::env::var("VERIF_SEED").ok().and_then(|s| s.trim().parse::<u64>().ok()).unwrap_or(DEFAULT_SEED)
}

pub fn run_seed(base: u64, prop: &str, index: u64) -> u64 {
    let mut h = base ^ 0xA5A5_5A5A_1234_5678;
    for b in prop.bytes() {
        h = h.wrapping_mul(0x100_0000_01B3) ^ b as u64;
    }
    let mut x = h ^ index.wrapping_mul(0x9E37_79B9_7F4A_7C15);
    splitmix(&mut x)
}

/* ------------------------------ known findings ------------------------------ */

#[derive(Clone, Debug)]
pub struct Known {
    pub property: String,
    pub class: String,
    pub needle: String,
    pub text: String,
}

pub fn load_known() -> Vec<Known> {
    let mut out = Vec::new();
    let Ok(s) = std::fs::read_to_string(format!("{}/KNOWN_FINDINGS.txt", verif_dir())) else {
        return out;
    };
    for line in s.lines() {
        let line = line.trim();
        let Some(rest) = line.strip_prefix("finding:") else { continue };
        let mut property = String::new();
        let mut class = String::new();
        let mut needle = String::new();
        let mut text = rest.trim().to_string();
        if let Some(i) = rest.find("match=\"") {
            let tail = &rest[i + 7..];
            if let Some(j) = tail.find('"') {
                needle = tail[..j].to_string();
                text = tail[j + 1..].trim().to_string();
            }
        }
        for tok in rest.split_whitespace() {
            if let Some(v) = tok.strip_prefix("property=") {
                property = v.to_string();
            } else if let Some(v) = tok.strip_prefix("class=") {
                class = v.to_string();
            }
        }
        out.push(Known { property, class, needle, text });
    }
    out
}

pub fn match_known<'a>(known: &'a [Known], prop: &str, v: &Violation) -> Option<&'a Known> {
    known.iter().find(|k| k.property == prop && k.class == v.class && (k.needle.is_empty() || v.detail.contains(&k.needle)))
}

/* ------------------------------ aggregation ------------------------------ */

#[derive(Default, Clone)]
pub struct Agg {
    pub runs: u64,
    pub clock: u64,
    pub switches: u64,
    pub nontrivial: u64,
    pub ops: u64,
    pub ev: [u64; NEV],
    pub runs_with_ev: [u64; NEV],
    pub faults: [u64; 8],
    pub runs_with_fault: [u64; 8],
    pub contended: u64,
    pub multi_runnable: u64,
    pub fair_mode_runs: u64,
    pub lin_keys: u64,
    pub lin_ops: u64,
    pub lin_states: u64,
    pub lin_max_ops: u64,
    pub lin_skipped: u64,
    pub refs_checked: u64,
    pub callbacks: u64,
    pub quarantined: u64,
    pub instances: u64,
    pub max_table: u64,
    pub tree_bins: u64,
    pub max_threads: u64,
    pub extra: BTreeMap<String, u64>,
    pub sched_fps: BTreeSet<u64>,
    pub shape_fps: BTreeSet<u64>,
    pub samples: Vec<Value>,
    pub known: BTreeMap<String, u64>,
    pub wall_ms: u64,
}

impl Agg {
    pub fn add_run(&mut self, p: &Program, r: &RunResult) {
        self.runs += 1;
        self.clock += r.outcome.clock;
        self.switches += r.outcome.switches;
        if r.outcome.switches_in_op > 0 {
            self.nontrivial += 1;
            self.sched_fps.insert(r.outcome.sched_fp);
        }
        self.ops += p.op_count() as u64;
        for i in 0..NEV {
            self.ev[i] += r.outcome.ev_count[i];
            if r.outcome.ev_count[i] > 0 {
                self.runs_with_ev[i] += 1;
            }
        }
        for i in 0..8 {
            self.faults[i] += r.outcome.fault_fired[i];
            if r.outcome.fault_fired[i] > 0 {
                self.runs_with_fault[i] += 1;
            }
        }
        if p.cfg.ncpu.is_some() || p.cfg.min_stride.is_some() {
            self.faults[7] += 1;
            self.runs_with_fault[7] += 1;
        }
        if p.cfg.batch <= 4 {
            *self.extra.entry("runs_with_reclamation_pressure_batch_1_to_4".into()).or_insert(0) += 1;
        }
        let flushes = p.threads.iter().flatten().filter(|o| matches!(o, Op::Flush | Op::Refresh)).count() as u64;
        if flushes > 0 {
            *self.extra.entry("flush_or_refresh_operations".into()).or_insert(0) += flushes;
        }
        self.contended += r.outcome.lock_contended;
        if r.outcome.max_runnable > 1 {
            self.multi_runnable += 1;
        }
        if r.outcome.fair_mode {
            self.fair_mode_runs += 1;
        }
        self.refs_checked += r.refs_checked;
        self.callbacks += r.callbacks;
        self.quarantined += r.alloc.quarantined as u64;
        self.instances += r.insts.len() as u64;
        self.max_threads = self.max_threads.max(p.threads.len() as u64);
        if let Some(rep) = &r.quiescent.inspect {
            self.max_table = self.max_table.max(rep.table_len as u64);
            self.tree_bins += rep.bins_tree as u64;
            self.shape_fps.insert(rep.shape_fp);
        }
    }

    pub fn to_json(&self, with_sets: bool) -> Value {
        let mut v = json!({
            "runs": self.runs, "clock": self.clock, "switches": self.switches, "nontrivial": self.nontrivial,
            "ops": self.ops, "ev": self.ev.to_vec(), "runs_with_ev": self.runs_with_ev.to_vec(),
            "faults": self.faults.to_vec(), "runs_with_fault": self.runs_with_fault.to_vec(),
            "contended": self.contended, "multi_runnable": self.multi_runnable, "fair_mode_runs": self.fair_mode_runs,
            "lin_keys": self.lin_keys, "lin_ops": self.lin_ops, "lin_states": self.lin_states, "lin_max_ops": self.lin_max_ops, "lin_skipped": self.lin_skipped,
            "refs_checked": self.refs_checked, "callbacks": self.callbacks, "quarantined": self.quarantined, "instances": self.instances,
            "max_table": self.max_table, "tree_bins": self.tree_bins, "max_threads": self.max_threads,
            "extra": self.extra, "samples": self.samples, "known": self.known, "wall_ms": self.wall_ms,
            "n_sched_fps": self.sched_fps.len(), "n_shape_fps": self.shape_fps.len(),
        });
        if with_sets {
            v["shape_fps"] = json!(self.shape_fps.iter().collect::<Vec<_>>());
        }
        v
    }

    pub fn merge_json(&mut self, v: &Value) {
        let u = |k: &str| v.get(k).and_then(|x| x.as_u64()).unwrap_or(0);
        self.runs += u("runs");
        self.clock += u("clock");
        self.switches += u("switches");
        self.nontrivial += u("nontrivial");
        self.ops += u("ops");
        let arr = |k: &str| -> Vec<u64> { v.get(k).and_then(|x| x.as_array()).map(|a| a.iter().map(|e| e.as_u64().unwrap_or(0)).collect()).unwrap_or_default() };
        for (i, x) in arr("ev").iter().enumerate().take(NEV) {
            self.ev[i] += x;
        }
        for (i, x) in arr("runs_with_ev").iter().enumerate().take(NEV) {
            self.runs_with_ev[i] += x;
        }
        for (i, x) in arr("faults").iter().enumerate().take(8) {
            self.faults[i] += x;
        }
        for (i, x) in arr("runs_with_fault").iter().enumerate().take(8) {
            self.runs_with_fault[i] += x;
        }
        self.contended += u("contended");
        self.multi_runnable += u("multi_runnable");
        self.fair_mode_runs += u("fair_mode_runs");
        self.lin_keys += u("lin_keys");
        self.lin_ops += u("lin_ops");
        self.lin_states += u("lin_states");
        self.lin_max_ops = self.lin_max_ops.max(u("lin_max_ops"));
        self.lin_skipped += u("lin_skipped");
        self.refs_checked += u("refs_checked");
        self.callbacks += u("callbacks");
        self.quarantined += u("quarantined");
        self.instances += u("instances");
        self.max_table = self.max_table.max(u("max_table"));
        self.tree_bins += u("tree_bins");
        self.max_threads = self.max_threads.max(u("max_threads"));
        if let Some(m) = v.get("extra").and_then(|x| x.as_object()) {
            for (k, x) in m {
                let e = self.extra.entry(k.clone()).or_insert(0);
                if k.starts_with("max_") || k.starts_with("largest_") {
                    *e = (*e).max(x.as_u64().unwrap_or(0));
                } else {
                    *e += x.as_u64().unwrap_or(0);
                }
            }
        }
        if let Some(m) = v.get("known").and_then(|x| x.as_object()) {
            for (k, x) in m {
                *self.known.entry(k.clone()).or_insert(0) += x.as_u64().unwrap_or(0);
            }
        }
        if let Some(a) = v.get("samples").and_then(|x| x.as_array()) {
            for s in a {
                if self.samples.len() < 3 {
                    self.samples.push(s.clone());
                }
            }
        }
        for x in arr("shape_fps") {
            self.shape_fps.insert(x);
        }
    }
}

/* ------------------------------ replay files ------------------------------ */

pub fn setup_to_json(s: &RunSetup) -> Value {
    json!({
        "budget": s.budget,
        "fair_bound": s.fair_bound,
        "log_access": s.log_access,
        "forbid_block": s.forbid_block.iter().map(|&b| b as u8).collect::<Vec<_>>(),
        "own_step_bound": s.own_step_bound.iter().map(|&b| if b == u64::MAX { 0 } else { b }).collect::<Vec<_>>(),
    })
}

pub fn setup_from_json(v: &Value, seed: u64) -> RunSetup {
    let mut s = RunSetup::new(seed);
    if let Some(b) = v.get("budget").and_then(|x| x.as_u64()) {
        s.budget = b;
    }
    if let Some(b) = v.get("fair_bound").and_then(|x| x.as_u64()) {
        s.fair_bound = b;
    }
    s.log_access = v.get("log_access").and_then(|x| x.as_bool()).unwrap_or(false);
    if let Some(a) = v.get("forbid_block").and_then(|x| x.as_array()) {
        for (i, e) in a.iter().enumerate().take(MAXT) {
            s.forbid_block[i] = e.as_u64().unwrap_or(0) != 0;
        }
    }
    if let Some(a) = v.get("own_step_bound").and_then(|x| x.as_array()) {
        for (i, e) in a.iter().enumerate().take(MAXT) {
            let b = e.as_u64().unwrap_or(0);
            s.own_step_bound[i] = if b == 0 { u64::MAX } else { b };
        }
    }
    s
}

pub fn opts_to_json(o: &ExecOpts) -> Value {
    json!({"panic_at": o.panic_at, "log_reads": o.log_reads, "inspect": o.inspect, "lookup_cost": o.lookup_cost, "midrun_every": o.midrun_every, "post_growth": o.post_growth, "retire_check": o.retire_check})
}

pub fn opts_from_json(v: &Value) -> ExecOpts {
    ExecOpts {
        panic_at: v.get("panic_at").and_then(|x| x.as_u64()),
        log_reads: v.get("log_reads").and_then(|x| x.as_bool()).unwrap_or(false),
        inspect: v.get("inspect").and_then(|x| x.as_bool()).unwrap_or(true),
        lookup_cost: v.get("lookup_cost").and_then(|x| x.as_bool()).unwrap_or(false),
        midrun_every: v.get("midrun_every").and_then(|x| x.as_u64()).map(|x| x as u32),
        post_growth: v.get("post_growth").and_then(|x| x.as_bool()).unwrap_or(false),
        retire_check: v.get("retire_check").and_then(|x| x.as_bool()).unwrap_or(false),
    }
}

pub fn replay_json(prop: &str, tier: &str, index: u64, seed: u64, class: &str, detail: &str, plan_program: &Program, setup: &RunSetup, opts: &ExecOpts, trace: &[TE]) -> Value {
    json!({
        "format": "flurry-sim-replay-1",
        "property": prop,
        "tier": tier,
        "index": index,
        "run_seed": seed,
        "class": class,
        "detail": detail,
        "program": plan_program.to_json(),
        "setup": setup_to_json(setup),
        "opts": opts_to_json(opts),
        "trace": trace_to_json(trace),
        "trace_legend": "[clock, kind, thread]: kind 0 = switch to thread, 1 = stall thread, 2 = release stalled thread, 3 = spurious unpark",
    })
}

/* ------------------------------ worker ------------------------------ */

fn first_line(s: &str) -> &str {
    s.lines().next().unwrap_or("")
}

pub fn worker_main(args: &[String]) -> i32 {
    if args.len() < 6 {
        eprintln!("usage: worker <prop> <tier> <seed> <first> <stride> <count> [--core n] [--fps]");
        return 2;
    }
    let prop = args[0].clone();
    let tier = args[1].clone();
    let base: u64 = args[2].parse().unwrap();
    let first: u64 = args[3].parse().unwrap();
    let stride: u64 = args[4].parse().unwrap();
    let count: u64 = args[5].parse().unwrap();
    let mut print_fp = false;
    let mut i = 6;
    while i < args.len() {
        match args[i].as_str() {
            "--core" => {
                crate::pin_to_core(args[i + 1].parse().unwrap());
                i += 1;
            }
            "--fps" => print_fp = true,
            _ => {}
        }
        i += 1;
    }
    crate::install_crash_handler();
    sched::init();
    if prop == "C02" {
        return seq_worker(&tier, base, first, stride, count, print_fp);
    }
    let known = load_known();
    let mut agg = Agg::default();
    let mut js = JudgeStats::default();
    let t0 = Instant::now();
    let out = std::io::stdout();
    let mut code = 0;
    'outer: for j in 0..count {
        let index = first + j * stride;
        let seed = run_seed(base, &prop, index);
        CUR_INDEX.store(index, Ordering::Relaxed);
        CUR_SEED.store(seed, Ordering::Relaxed);
        let mut dry = |p: &Plan| exec::execute(&p.program, props::clone_setup(&p.setup), &p.opts);
        let plans = props::plans(&prop, &tier, seed, &mut dry);
        for (sub, Plan { program, setup, opts }) in plans.into_iter().enumerate() {
            let setup_json = setup_to_json(&setup);
            let r = exec::execute(&program, setup, &opts);
            let viol = props::judge(&prop, &program, &r, &opts, &mut js);
            if agg.samples.is_empty() && (r.outcome.switches_in_op > 0 || opts.panic_at.is_some()) {
                agg.samples.push(json!({"index": index, "sub": sub, "run_seed": seed, "program": program.to_json(), "clock": r.outcome.clock, "switches": r.outcome.switches,
                    "panic_at": opts.panic_at,
                    "history": r.history.iter().filter(|h| !h.op.is_guard_op()).take(40).map(|h| format!("[{}..{}] t{} {:?} -> {:?}", h.inv, h.ret, h.thread, h.op, h.res)).collect::<Vec<_>>() }));
            }
            props::extra_stats(&prop, &program, &r, &mut agg);
            agg.add_run(&program, &r);
            if opts.panic_at.is_some() && r.history.iter().any(|h| matches!(&h.res, exec::Res::Panic(m) | exec::Res::RetainPanic(_, m) if m.starts_with("injected"))) {
                agg.faults[5] += 1;
                agg.runs_with_fault[5] += 1;
            }
            if print_fp {
                let mut o = out.lock();
                let _ = writeln!(o, "F {} {:016x} {:016x} {}", index * 100_000 + sub as u64, r.outcome.fp, r.outcome.sched_fp, r.outcome.clock);
            }
            let mut unknown: Vec<&Violation> = Vec::new();
            for v in &viol {
                match match_known(&known, &prop, v) {
                    Some(k) => {
                        *agg.known.entry(format!("{}|{}|{}", k.class, k.needle, k.text)).or_insert(0) += 1;
                    }
                    None => unknown.push(v),
                }
            }
            if let Some(v) = unknown.first() {
                let setup = setup_from_json(&setup_json, seed);
                let rj = replay_json(&prop, &tier, index, seed, &v.class, &v.detail, &program, &setup, &opts, &r.outcome.trace);
                let mut o = out.lock();
                let _ = writeln!(o, "V {}", rj);
                code = 1;
                break 'outer;
            }
            if r.outcome.wedged {
                // cannot continue in this process (only reachable with a known finding)
                code = 4;
                break 'outer;
            }
        }
    }
    for (k, n) in &js.extra {
        let e = agg.extra.entry(k.clone()).or_insert(0);
        if k.starts_with("max_") || k.starts_with("largest_") {
            *e = (*e).max(*n);
        } else {
            *e += *n;
        }
    }
    agg.lin_keys = js.lin_keys as u64;
    agg.lin_ops = js.lin_ops as u64;
    agg.lin_states = js.lin_states as u64;
    agg.lin_max_ops = js.lin_max_ops as u64;
    agg.lin_skipped = js.lin_skipped as u64;
    agg.wall_ms = t0.elapsed().as_millis() as u64;
    let mut o = out.lock();
    let _ = writeln!(o, "S {}", agg.to_json(true));
    let _ = writeln!(o, "P {}", agg.sched_fps.iter().map(|x| format!("{:x}", x)).collect::<Vec<_>>().join(","));
    let _ = o.flush();
    code
}

fn seq_worker(tier: &str, base: u64, first: u64, stride: u64, count: u64, print_fp: bool) -> i32 {
    let known = load_known();
    let mut agg = Agg::default();
    let t0 = Instant::now();
    let out = std::io::stdout();
    let mut code = 0;
    let mut api: BTreeMap<String, u64> = BTreeMap::new();
    for j in 0..count {
        let index = first + j * stride;
        let seed = run_seed(base, "C02", index);
        CUR_INDEX.store(index, Ordering::Relaxed);
        CUR_SEED.store(seed, Ordering::Relaxed);
        let mut rng = Rng::new(seed);
        let p = crate::seq::gen(&mut rng, tier == "thorough");
        let o = crate::seq::execute(&p);
        agg.runs += 1;
        agg.clock += o.clock;
        agg.ops += o.steps_done as u64;
        agg.max_table = agg.max_table.max(o.max_table as u64);
        agg.max_threads = 1;
        let pj = p.to_json();
        let mut fp = crate::rng::Fp::new();
        for b in pj.to_string().bytes() {
            fp.add(b as u64);
        }
        if p.ops.len() >= 3 {
            agg.nontrivial += 1;
            agg.sched_fps.insert(fp.0);
        }
        for op in &p.ops {
            let name = op.to_json()[0].as_str().unwrap_or("").to_string();
            *api.entry(format!("api_{}{}", if p.set { "set_" } else { "" }, name)).or_insert(0) += 1;
        }
        *api.entry(format!("hash_{}", p.hash.name().split(':').next().unwrap_or(""))).or_insert(0) += 1;
        if agg.samples.is_empty() && p.ops.len() > 5 && p.ops.len() < 25 {
            agg.samples.push(json!({"index": index, "run_seed": seed, "program": pj}));
        }
        if print_fp {
            let mut o2 = out.lock();
            let _ = writeln!(o2, "F {} {:016x} {:016x} {}", index, fp.0, o.failure.is_some() as u64, o.clock);
        }
        if let Some((step, detail)) = o.failure {
            let v = Violation { class: "differs-from-reference".into(), detail: detail.clone() };
            if let Some(k) = match_known(&known, "C02", &v) {
                *agg.known.entry(format!("{}|{}|{}", k.class, k.needle, k.text)).or_insert(0) += 1;
                continue;
            }
            let min = crate::seq::minimise(&p);
            let mo = crate::seq::execute(&min);
            let (min, detail) = match mo.failure {
                Some((_, d)) => (min, d),
                None => (p.clone(), detail),
            };
            let rj = json!({"format": "flurry-sim-seq-1", "property": "C02", "tier": tier, "index": index, "run_seed": seed, "class": "differs-from-reference",
                "detail": detail, "failing_step_before_minimisation": step, "program": min.to_json()});
            let mut o2 = out.lock();
            let _ = writeln!(o2, "V {}", rj);
            code = 1;
            break;
        }
    }
    agg.extra = api;
    agg.wall_ms = t0.elapsed().as_millis() as u64;
    let mut o2 = out.lock();
    let _ = writeln!(o2, "S {}", agg.to_json(true));
    let _ = writeln!(o2, "P {}", agg.sched_fps.iter().map(|x| format!("{:x}", x)).collect::<Vec<_>>().join(","));
    let _ = o2.flush();
    code
}

/* ------------------------------ replay ------------------------------ */

pub struct ReplayOutcome {
    pub violations: Vec<Violation>,
    pub trace: Vec<TE>,
    pub clock: u64,
}

fn dump_run(p: &Program, r: &RunResult) {
    let names = props::ev_names();
    println!("--- program: {}", p.to_json());
    println!("--- history");
    for h in &r.history {
        if !h.op.is_guard_op() {
            println!("[{}..{}] t{} op{} {:?} -> {:?}", h.inv, h.ret, h.thread, h.idx, h.op, h.res);
        }
    }
    println!("--- events");
    for e in &r.outcome.events {
        if !matches!(e.ev, flurry::verif::Ev::LockAcquired | flurry::verif::Ev::LockReleased | flurry::verif::Ev::Retire) {
            println!("@{} t{} {} a={} b={}", e.clock, e.thread, names[e.ev as usize], e.a, if matches!(e.ev, flurry::verif::Ev::ResizeStarted | flurry::verif::Ev::Published) { 0 } else { e.b });
        }
    }
    if let Some(rep) = &r.quiescent.inspect {
        println!("--- quiescent: table_len={} size_ctl={} transfer_index={} count={} nodes={} bins list/tree/moved={}/{}/{}", rep.table_len, rep.size_ctl, rep.transfer_index, rep.count, rep.nodes, rep.bins_list, rep.bins_tree, rep.bins_moved);
    }
    println!("--- guards: {:?}", r.guards.iter().map(|g| (g.thread, g.enter, g.exit)).collect::<Vec<_>>());
    for (i, x) in r.insts.iter().enumerate() {
        if !x.is_key {
            println!("val inst {} id {} parent {} created@{} by t{} drops={} drop@{} by t{} in_run={}", i, x.logical, x.parent as i32, x.created_clock, x.created_thread, x.drops, x.drop_clock, x.drop_thread, x.dropped_in_run);
        }
    }
    println!("--- trace: {:?}", r.outcome.trace.iter().map(|t| (t.clock, t.kind, t.thread)).collect::<Vec<_>>());
}

fn run_replay_value(v: &Value, search: u64) -> Result<ReplayOutcome, String> {
    let prop = v.get("property").and_then(|x| x.as_str()).ok_or("no property")?.to_string();
    let seed = v.get("run_seed").and_then(|x| x.as_u64()).unwrap_or(0);
    let want_class = v.get("class").and_then(|x| x.as_str()).unwrap_or("").to_string();
    let program = Program::from_json(v.get("program").ok_or("no program")?).ok_or("bad program")?;
    let opts = opts_from_json(v.get("opts").unwrap_or(&Value::Null));
    let trace = trace_from_json(v.get("trace").unwrap_or(&json!([]))).ok_or("bad trace")?;
    let mut js = JudgeStats::default();
    // first: follow the recorded trace
    if search == 0 || !trace.is_empty() {
        let mut setup = setup_from_json(v.get("setup").unwrap_or(&Value::Null), seed);
        setup.strat = Strategy::Replay;
        setup.replay = trace.clone();
        let r = exec::execute(&program, setup, &opts);
        let viol = props::judge(&prop, &program, &r, &opts, &mut js);
        if std::env::var("VERIF_DUMP").is_ok() {
            dump_run(&program, &r);
        }
        let hit = viol.iter().any(|x| want_class.is_empty() || x.class == want_class);
        if hit || search == 0 || r.outcome.wedged {
            return Ok(ReplayOutcome { violations: viol, trace: r.outcome.trace.clone(), clock: r.outcome.clock });
        }
    }
    // then: seeded search over schedules for the same program
    for s in 0..search {
        let mut rng = Rng::new(seed ^ (s + 1).wrapping_mul(0x1234_5678_9ABC_DEF1));
        let base = setup_from_json(v.get("setup").unwrap_or(&Value::Null), seed ^ s);
        let mut setup = crate::gen::gen_setup(&mut rng, seed ^ s, &program, 20, true);
        setup.budget = base.budget;
        setup.fair_bound = base.fair_bound;
        setup.forbid_block = base.forbid_block;
        setup.own_step_bound = base.own_step_bound;
        setup.log_access = base.log_access;
        let r = exec::execute(&program, setup, &opts);
        let viol = props::judge(&prop, &program, &r, &opts, &mut js);
        if viol.iter().any(|x| want_class.is_empty() || x.class == want_class) || r.outcome.wedged {
            return Ok(ReplayOutcome { violations: viol, trace: r.outcome.trace.clone(), clock: r.outcome.clock });
        }
    }
    Ok(ReplayOutcome { violations: vec![], trace: vec![], clock: 0 })
}

/// `replay <file> [--search n] [--out file] [--verbose]`
/// Exit 1 when the recorded class is reproduced, 0 when not, 2 on error. A by-seed replay file
/// (crash before a trace could be recorded) re-derives the run from its seed.
pub fn replay_main(args: &[String]) -> i32 {
    if args.is_empty() {
        eprintln!("usage: replay <file> [--search n] [--out file] [--verbose]");
        return 2;
    }
    let mut search = 0u64;
    let mut outp: Option<String> = None;
    let mut verbose = false;
    let mut i = 1;
    while i < args.len() {
        match args[i].as_str() {
            "--search" => {
                search = args[i + 1].parse().unwrap_or(0);
                i += 1;
            }
            "--out" => {
                outp = Some(args[i + 1].clone());
                i += 1;
            }
            "--verbose" => verbose = true,
            _ => {}
        }
        i += 1;
    }
    let text = match std::fs::read_to_string(&args[0]) {
        Ok(t) => t,
        Err(e) => {
            eprintln!("cannot read {}: {}", args[0], e);
            return 2;
        }
    };
    let mut v: Value = match serde_json::from_str(&text) {
        Ok(v) => v,
        Err(e) => {
            eprintln!("bad replay file: {}", e);
            return 2;
        }
    };
    if v.get("format").and_then(|x| x.as_str()) == Some("flurry-sim-c09-1") {
        return crate::c09::replay(&v);
    }
    if v.get("format").and_then(|x| x.as_str()) == Some("flurry-sim-stamp-1") {
        let (viol, _) = stamp_arithmetic();
        return match viol.first() {
            Some(d) => {
                println!("REPRODUCED property=C10 class=stamp-arithmetic\n{}", d);
                1
            }
            None => {
                println!("NOT-REPRODUCED property=C10");
                0
            }
        };
    }
    if v.get("format").and_then(|x| x.as_str()) == Some("flurry-sim-c19-1") {
        return match crate::c19::replay(&v) {
            Some(Err(d)) => {
                println!("REPRODUCED property=C19 class=serde-stream");
                println!("{}", d);
                1
            }
            Some(Ok(())) => {
                println!("NOT-REPRODUCED property=C19");
                0
            }
            None => {
                eprintln!("malformed replay file");
                2
            }
        };
    }
    if v.get("format").and_then(|x| x.as_str()) == Some("flurry-sim-c14-1") {
        let tier = v.get("tier").and_then(|x| x.as_str()).unwrap_or("quick").to_string();
        let seed = v.get("seed").and_then(|x| x.as_u64()).unwrap_or(DEFAULT_SEED);
        let (viol, _) = crate::c14::run(&tier, seed);
        return match viol.first() {
            Some(d) => {
                println!("REPRODUCED property=C14 class=capacity-contract");
                println!("{}", d);
                1
            }
            None => {
                println!("NOT-REPRODUCED property=C14");
                0
            }
        };
    }
    if v.get("format").and_then(|x| x.as_str()) == Some("flurry-sim-seq-1") {
        crate::install_crash_handler();
        sched::init();
        let Some(p) = v.get("program").and_then(crate::seq::SeqProgram::from_json) else {
            eprintln!("bad sequential program");
            return 2;
        };
        let o = crate::seq::execute(&p);
        return match o.failure {
            Some((step, d)) => {
                println!("REPRODUCED property=C02 class=differs-from-reference step={}", step);
                println!("{}", d);
                1
            }
            None => {
                println!("NOT-REPRODUCED property=C02");
                0
            }
        };
    }
    crate::install_crash_handler();
    sched::init();
    let prop = v.get("property").and_then(|x| x.as_str()).unwrap_or("").to_string();
    let want = v.get("class").and_then(|x| x.as_str()).unwrap_or("").to_string();
    if v.get("by_seed").and_then(|x| x.as_bool()).unwrap_or(false) {
        let tier = v.get("tier").and_then(|x| x.as_str()).unwrap_or("quick").to_string();
        let seed = v.get("run_seed").and_then(|x| x.as_u64()).unwrap_or(0);
        CUR_SEED.store(seed, Ordering::Relaxed);
        CUR_INDEX.store(v.get("index").and_then(|x| x.as_u64()).unwrap_or(0), Ordering::Relaxed);
        let sub = v.get("sub").and_then(|x| x.as_u64()).unwrap_or(0) as usize;
        let mut dry = |p: &Plan| exec::execute(&p.program, props::clone_setup(&p.setup), &p.opts);
        let mut plans = props::plans(&prop, &tier, seed, &mut dry);
        if plans.is_empty() {
            println!("NOT-REPRODUCED (no plan for this seed)");
            return 0;
        }
        let Plan { program, setup, opts } = plans.swap_remove(sub.min(plans.len() - 1));
        if let Some(i) = args.iter().position(|a| a == "--record") {
            // write the program first, then stream the schedule as it is decided
            if let Some(path) = args.get(i + 1) {
                let head = json!({"program": program.to_json(), "setup": setup_to_json(&setup), "opts": opts_to_json(&opts)});
                let _ = std::fs::write(path, format!("P {}\n", head));
                let c = std::ffi::CString::new(path.as_str()).unwrap();
                let fd = unsafe { libc::open(c.as_ptr(), libc::O_WRONLY | libc::O_APPEND) };
                sched::TRACE_FD.store(fd, Ordering::Relaxed);
            }
        }
        let mut js = JudgeStats::default();
        let r = exec::execute(&program, setup, &opts);
        let viol = props::judge(&prop, &program, &r, &opts, &mut js);
        for x in &viol {
            println!("REPRODUCED class={} {}", x.class, first_line(&x.detail));
        }
        return if viol.iter().any(|x| x.class == want) { 1 } else { 0 };
    }
    CUR_SEED.store(v.get("run_seed").and_then(|x| x.as_u64()).unwrap_or(0), Ordering::Relaxed);
    CUR_INDEX.store(v.get("index").and_then(|x| x.as_u64()).unwrap_or(0), Ordering::Relaxed);
    match run_replay_value(&v, search) {
        Err(e) => {
            eprintln!("replay error: {}", e);
            2
        }
        Ok(o) => {
            let hit: Vec<&Violation> = o.violations.iter().filter(|x| want.is_empty() || x.class == want).collect();
            if let Some(x) = hit.first() {
                println!("REPRODUCED property={} class={} clock={}", prop, x.class, o.clock);
                if verbose {
                    println!("{}", x.detail);
                } else {
                    println!("{}", first_line(&x.detail));
                }
                if let Some(p) = outp {
                    v["trace"] = trace_to_json(&o.trace);
                    v["detail"] = json!(x.detail);
                    let _ = std::fs::write(p, serde_json::to_string_pretty(&v).unwrap());
                }
                1
            } else {
                println!("NOT-REPRODUCED property={} wanted class={} (saw {:?})", prop, want, o.violations.iter().map(|x| x.class.clone()).collect::<Vec<_>>());
                0
            }
        }
    }
}

/// C10 sub-check: for every legal table length 2^0..2^30 the stamp shifted into `size_ctl` is
/// negative, recovers the length's stamp, and the control values stamp+1 (finishing) ..
/// stamp+MAX_RESIZERS of one length never collide with those of another length.
pub fn stamp_arithmetic() -> (Vec<String>, u64) {
    use flurry::map_verif::{resize_stamp, MAX_RESIZERS, RESIZE_STAMP_SHIFT};
    let mut out = Vec::new();
    let lens: Vec<usize> = (0..=30).map(|i| 1usize << i).collect();
    let mut ranges: Vec<(isize, isize, usize)> = Vec::new();
    for &n in &lens {
        let rs = resize_stamp(n);
        let base = rs << RESIZE_STAMP_SHIFT;
        if base >= 0 {
            out.push(format!("resize_stamp({}) << {} = {} is not negative", n, RESIZE_STAMP_SHIFT, base));
        }
        for k in [1isize, 2, 3, MAX_RESIZERS] {
            let sc = base + k;
            if sc >= 0 {
                out.push(format!("size_ctl for length {} with {} as low part is not negative", n, k));
            }
            if (sc as usize >> RESIZE_STAMP_SHIFT) as isize != rs {
                out.push(format!("the stamp of length {} cannot be recovered from size_ctl {:#x} (low part {})", n, sc, k));
            }
        }
        ranges.push((base + 1, base + MAX_RESIZERS, n));
    }
    for i in 0..ranges.len() {
        for j in i + 1..ranges.len() {
            let (a0, a1, na) = ranges[i];
            let (b0, b1, nb) = ranges[j];
            if a0 <= b1 && b0 <= a1 {
                out.push(format!("control-word ranges of table lengths {} and {} overlap", na, nb));
            }
        }
    }
    (out, lens.len() as u64)
}

/* ------------------------------ check (orchestrator) ------------------------------ */

fn tmp_dir() -> String {
    let d = format!("{}/sim/target/tmp", verif_dir());
    let _ = std::fs::create_dir_all(&d);
    d
}

fn exe() -> String {
    std::env::current_exe().unwrap().to_string_lossy().to_string()
}

fn nworkers() -> u64 {
    let n = std::thread::available_parallelism().map(|x| x.get()).unwrap_or(4) as u64;
    std::env::var("VERIF_WORKERS").ok().and_then(|s| s.parse().ok()).unwrap_or(n.min(16)).max(1)
}

pub struct WorkerResult {
    pub agg: Agg,
    pub violation: Option<Value>,
    pub crash: Option<(u64, u64, u64)>,
    pub exit: i32,
    pub sched_fps: Vec<u64>,
    pub fps: Vec<(u64, String)>,
}

pub fn spawn_workers(prop: &str, tier: &str, base: u64, total: u64, workers: u64, with_fps: bool) -> Vec<WorkerResult> {
    let per = total.div_ceil(workers);
    let mut children = Vec::new();
    for w in 0..workers {
        let mut cmd = Command::new(exe());
        cmd.arg("worker").arg(prop).arg(tier).arg(base.to_string()).arg(w.to_string()).arg(workers.to_string()).arg(per.to_string()).arg("--core").arg(w.to_string());
        if with_fps {
            cmd.arg("--fps");
        }
        cmd.stdout(Stdio::piped()).stderr(Stdio::null());
        children.push(cmd.spawn().expect("spawn worker"));
    }
    let mut handles = Vec::new();
    for mut c in children {
        handles.push(std::thread::spawn(move || {
            let mut res = WorkerResult { agg: Agg::default(), violation: None, crash: None, exit: 0, sched_fps: vec![], fps: vec![] };
            let so = c.stdout.take().unwrap();
            for line in BufReader::new(so).lines() {
                let Ok(line) = line else { break };
                if let Some(rest) = line.strip_prefix("S ") {
                    if let Ok(v) = serde_json::from_str::<Value>(rest) {
                        res.agg.merge_json(&v);
                    }
                } else if let Some(rest) = line.strip_prefix("V ") {
                    res.violation = serde_json::from_str::<Value>(rest).ok();
                } else if let Some(rest) = line.strip_prefix("P ") {
                    res.sched_fps = rest.split(',').filter_map(|x| u64::from_str_radix(x, 16).ok()).collect();
                } else if let Some(rest) = line.strip_prefix("F ") {
                    let mut it = rest.splitn(2, ' ');
                    let idx = it.next().and_then(|x| x.parse().ok()).unwrap_or(0);
                    res.fps.push((idx, it.next().unwrap_or("").to_string()));
                } else if let Some(rest) = line.strip_prefix("CRASH ") {
                    let f: Vec<u64> = rest.split_whitespace().filter_map(|x| x.parse().ok()).collect();
                    if f.len() == 3 {
                        res.crash = Some((f[0], f[1], f[2]));
                    }
                }
            }
            res.exit = c.wait().ok().and_then(|s| s.code()).unwrap_or(-1);
            res
        }));
    }
    handles.into_iter().map(|h| h.join().unwrap()).collect()
}

fn runs_for(prop: &str, tier: &str) -> u64 {
    if let Ok(s) = std::env::var("VERIF_RUNS") {
        if let Ok(n) = s.parse() {
            return n;
        }
    }
    props::runs_for(prop, tier)
}

/// Runs one candidate replay file in a fresh process; returns Some(trace file written) when the
/// class is reproduced.
fn try_candidate(v: &Value, search: u64, tag: &str) -> Option<Value> {
    let dir = tmp_dir();
    let inp = format!("{}/cand-{}-{}.json", dir, std::process::id(), tag);
    let outp = format!("{}/cand-{}-{}.out.json", dir, std::process::id(), tag);
    let _ = std::fs::remove_file(&outp);
    std::fs::write(&inp, v.to_string()).ok()?;
    let mut cmd = Command::new(exe());
    cmd.arg("replay").arg(&inp).arg("--out").arg(&outp);
    if search > 0 {
        cmd.arg("--search").arg(search.to_string());
    }
    let t0 = Instant::now();
    let st = cmd.stdout(Stdio::null()).stderr(Stdio::null()).status().ok()?;
    let code = st.code().unwrap_or(-1);
    if std::env::var("VERIF_DEBUG_MIN").is_ok() {
        eprintln!("candidate {} search={} -> exit {} in {:?}", tag, search, code, t0.elapsed());
    }
    let res = if code == 1 {
        std::fs::read_to_string(&outp).ok().and_then(|t| serde_json::from_str::<Value>(&t).ok())
    } else if code == 3 && v.get("class").and_then(|x| x.as_str()) == Some("crash") {
        Some(v.clone())
    } else {
        None
    };
    let _ = std::fs::remove_file(&inp);
    let _ = std::fs::remove_file(&outp);
    res
}

/// Shrinks a failing replay (schedule first, then program, then schedule again) while the same
/// violation class is reproduced in a fresh process.
pub fn minimise(mut best: Value, budget_s: u64) -> Value {
    let t0 = Instant::now();
    let over = |t0: &Instant| t0.elapsed().as_secs() > budget_s;
    let mut n = 0u32;
    // 1. ddmin over the trace entries
    let shrink_trace = |best: &mut Value, n: &mut u32| {
        let mut trace: Vec<Value> = best["trace"].as_array().cloned().unwrap_or_default();
        let mut chunk = trace.len().div_ceil(2).max(1);
        while chunk >= 1 && !trace.is_empty() && !over(&t0) {
            let mut i = 0;
            let mut progressed = false;
            while i < trace.len() && !over(&t0) {
                let mut cand = trace.clone();
                let end = (i + chunk).min(cand.len());
                cand.drain(i..end);
                let mut cv = best.clone();
                cv["trace"] = Value::Array(cand.clone());
                *n += 1;
                let ok = try_candidate(&cv, 0, &format!("t{}", n));
                // the run re-records the schedule it actually followed (forced switches come
                // back, ignored entries vanish): only a strictly shorter one is progress
                let newtrace = ok.as_ref().and_then(|o| o["trace"].as_array().cloned());
                match (ok, newtrace) {
                    (Some(ok), Some(nt)) if nt.len() < trace.len() => {
                        trace = nt;
                        best["trace"] = Value::Array(trace.clone());
                        best["detail"] = ok["detail"].clone();
                        progressed = true;
                    }
                    _ => i += chunk,
                }
            }
            if chunk == 1 && !progressed {
                break;
            }
            if chunk > 1 {
                chunk = chunk.div_ceil(2);
            } else if !progressed {
                break;
            }
        }
    };
    shrink_trace(&mut best, &mut n);
    // 2. program: drop threads' operations one at a time, pre-population entries; each candidate
    //    is re-searched with a small schedule budget because step numbers shift
    // a crash cannot hand back the schedule it actually followed, so candidate programs (which
    // need a fresh schedule search) are not attempted for crashes: only the schedule is shrunk
    let mut changed = best["class"].as_str() != Some("crash");
    while changed && !over(&t0) {
        changed = false;
        let nthreads = best["program"]["threads"].as_array().map(|a| a.len()).unwrap_or(0);
        for t in 0..nthreads {
            let mut i = 0;
            loop {
                let len = best["program"]["threads"][t].as_array().map(|a| a.len()).unwrap_or(0);
                if i >= len || over(&t0) {
                    break;
                }
                let mut cv = best.clone();
                cv["program"]["threads"][t].as_array_mut().unwrap().remove(i);
                if cv["program"]["threads"].as_array().unwrap().iter().all(|x| x.as_array().unwrap().is_empty()) {
                    i += 1;
                    continue;
                }
                // an empty thread is dropped entirely when it is the last one
                n += 1;
                if let Some(ok) = try_candidate(&cv, 150, &format!("p{}", n)) {
                    best = ok;
                    changed = true;
                } else {
                    i += 1;
                }
            }
        }
        for field in ["preremove", "prepop"] {
            let mut i = 0;
            loop {
                let len = best["program"][field].as_array().map(|a| a.len()).unwrap_or(0);
                if i >= len || over(&t0) {
                    break;
                }
                let mut cv = best.clone();
                cv["program"][field].as_array_mut().unwrap().remove(i);
                n += 1;
                if let Some(ok) = try_candidate(&cv, 150, &format!("q{}", n)) {
                    best = ok;
                    changed = true;
                } else {
                    i += 1;
                }
            }
        }
    }
    // trailing empty threads
    loop {
        let th = best["program"]["threads"].as_array().cloned().unwrap_or_default();
        if th.len() > 1 && th.last().map(|x| x.as_array().unwrap().is_empty()).unwrap_or(false) {
            let mut cv = best.clone();
            cv["program"]["threads"].as_array_mut().unwrap().pop();
            if let Some(a) = cv["program"]["facade"].as_array_mut() {
                if a.len() >= th.len() {
                    a.pop();
                }
            }
            n += 1;
            if let Some(ok) = try_candidate(&cv, 50, &format!("e{}", n)) {
                best = ok;
                continue;
            }
        }
        break;
    }
    shrink_trace(&mut best, &mut n);
    best["minimiser_candidates"] = json!(n);
    best
}

fn write_evidence(prop: &str, tier: &str, seed: u64, level: &str, agg: &Agg, distinct: u64, wall_s: f64, violations: u64, known_lines: &[String]) {
    let dir = format!("{}/evidence", verif_dir());
    let _ = std::fs::create_dir_all(&dir);
    let ev_names = props::ev_names();
    let mut probes = serde_json::Map::new();
    for (i, name) in ev_names.iter().enumerate() {
        if agg.ev[i] > 0 || props::probe_relevant(prop, i) {
            probes.insert(name.to_string(), json!({"hits": agg.ev[i], "runs": agg.runs_with_ev[i]}));
        }
    }
    let fault_names = ["preemption_inside_operation", "lock_contention", "stall", "spurious_unpark", "stall_released", "callback_panic", "foreign_guard", "knob_skew"];
    let mut faults = serde_json::Map::new();
    for (i, name) in fault_names.iter().enumerate() {
        faults.insert(name.to_string(), json!({"fired": agg.faults[i], "runs": agg.runs_with_fault[i]}));
    }
    if prop == "C19" {
        let ex = |k: &str| agg.extra.get(k).copied().unwrap_or(0);
        let cases = ex("serde_cases");
        faults.insert("stream_short_transfer".into(), json!({"fired": ex("serde_fault_short_transfer"), "cases": cases}));
        faults.insert("stream_interrupted".into(), json!({"fired": ex("serde_fault_interrupted"), "cases": cases}));
        faults.insert("stream_hard_error".into(), json!({"fired": ex("serde_fault_hard_error"), "cases": cases}));
        faults.insert("stream_eof_or_write_zero".into(), json!({"fired": ex("serde_fault_eof_or_write_zero"), "cases": cases}));
        faults.insert("length_hint_absent_or_wrong".into(), json!({"fired": ex("serde_cases_with_absent_or_wrong_length_hint"), "cases": cases}));
    }
    let runs_per_hour = if wall_s > 0.0 { (agg.runs as f64 / wall_s * 3600.0) as u64 } else { 0 };
    let v = json!({
        "property_id": prop,
        "tier": tier,
        "seed": seed,
        "level": level,
        "wall_s": wall_s,
        "violations": violations,
        "coverage": {
            "evaluations": agg.runs,
            "distinct_nontrivial": distinct,
            "rule": props::rule_text(prop),
            "samples": agg.samples,
            "simulated_runs": agg.runs,
            "runs_per_hour": runs_per_hour,
            "simulated_time_steps": agg.clock,
            "simulated_time_note": "flurry has no clock; simulated time is the scheduler's logical clock (one tick per seam / decision point)",
            "context_switches": agg.switches,
            "runs_with_preemption_inside_an_operation": agg.nontrivial,
            "distinct_quiescent_table_shapes": agg.shape_fps.len(),
            "operations_executed": agg.ops,
            "max_logical_threads": agg.max_threads,
            "faults": faults,
            "probes": probes,
            "linearizability": {"keys_checked": agg.lin_keys, "operations_checked": agg.lin_ops, "search_states": agg.lin_states, "max_ops_per_key": agg.lin_max_ops, "keys_skipped_too_long": agg.lin_skipped},
            "references_rechecked_under_live_guard": agg.refs_checked,
            "callback_invocations": agg.callbacks,
            "blocks_quarantined_and_poison_checked": agg.quarantined,
            "instances_tracked": agg.instances,
            "largest_table": agg.max_table,
            "tree_bins_at_quiescence": agg.tree_bins,
            "extra": agg.extra,
            "runs_that_reached_the_fair_tail": agg.fair_mode_runs,
            "runs_with_2_or_more_runnable_threads": agg.multi_runnable,
            "lock_contention_events": agg.contended,
            "reach_goals": props::reach_goals(prop, agg),
            "known_findings_hit": known_lines,
            "components": components_of(prop)
        },
        "assumptions": props::assumptions(prop),
    });
    let path = format!("{}/{}.json", dir, prop);
    let _ = std::fs::write(path, serde_json::to_string_pretty(&v).unwrap());
}

fn components_of(prop: &str) -> Value {
    let mut real = vec![
        "flurry (all of src/, built from /repo's working tree with --cfg flurry_verif, features rayon + serde on)".to_string(),
        "seize 0.3.3 (unmodified; one call = one atomic step)".to_string(),
        "parking_lot mutex state (try_lock/unlock)".to_string(),
    ];
    let mut stubbed = vec![
        "OS scheduling (baton scheduler decides every context switch)".to_string(),
        "lock waiting (blocked-on set in the scheduler)".to_string(),
        "thread park/unpark (scheduler tokens, optional spurious wake-ups)".to_string(),
        "num_cpus / transfer stride (knobs)".to_string(),
    ];
    if prop == "C19" {
        real.push("flurry's rayon_impls.rs and serde_impls.rs".into());
        real.push("rayon's iterator adaptors and plumbing (map, map_init, for_each_init, consumers, folders, reducers)".into());
        real.push("serde + serde_json (serialiser, text deserialiser, io adaptors)".into());
        stubbed.push("rayon-core's work-stealing thread pool: replaced by the simulated pool (parts published by drive_unindexed, taken by simulated threads)".into());
        stubbed.push("the byte streams under serde_json: harness-owned Read/Write with injected short transfers, EINTR, hard errors, EOF".into());
        stubbed.push("a length-announcing non-text deserializer written by the harness (exact / absent / wrong size hints)".into());
    }
    json!({"real": real, "stubbed": stubbed})
}

pub fn check_main(args: &[String]) -> i32 {
    if args.len() < 2 {
        eprintln!("usage: check <prop> <quick|thorough>");
        return 2;
    }
    let prop = args[0].as_str();
    let tier = args[1].as_str();
    if let Some(code) = props::special_check(prop, tier) {
        return code;
    }
    let base = base_seed();
    let total = runs_for(prop, tier);
    let workers = nworkers().min(total.max(1));
    println!("flurry-sim check {} {} seed={} runs={} workers={}", prop, tier, base, total, workers);
    let t0 = Instant::now();
    let mut pre_extra: BTreeMap<String, u64> = BTreeMap::new();
    let mut pre_samples: Vec<Value> = Vec::new();
    let mut pre_violation: Option<Value> = None;
    if prop == "C10" {
        // deterministic, exhaustive: the generation stamp arithmetic for all 31 legal table lengths
        let (viol, n) = stamp_arithmetic();
        pre_extra.insert("stamp_arithmetic_table_lengths_checked".into(), n);
        println!("C10 stamp arithmetic: {} table lengths, {} violations", n, viol.len());
        if let Some(d) = viol.first() {
            pre_violation = Some(json!({"format": "flurry-sim-stamp-1", "property": "C10", "tier": tier, "class": "stamp-arithmetic", "detail": d, "run_seed": 0, "index": 0}));
        }
    }
    if prop == "C14" {
        let (viol, st) = crate::c14::run(tier, base);
        pre_extra.insert("single_client_capacities_checked".into(), st.capacities_checked);
        pre_extra.insert("single_client_reserve_cases".into(), st.reserve_cases);
        pre_extra.insert("single_client_sequences".into(), st.sequences);
        pre_extra.insert("single_client_steps".into(), st.steps);
        pre_extra.insert("single_client_growths_observed".into(), st.growths_seen);
        pre_extra.insert("largest_table_single_client".into(), st.max_table);
        pre_samples = st.samples.iter().map(|s| json!({"single_client_sequence": s})).collect();
        println!("C14 single-client half: {} capacities, {} reserve cases, {} sequences / {} steps, {} violations", st.capacities_checked, st.reserve_cases, st.sequences, st.steps, viol.len());
        let known = load_known();
        for d in viol {
            let v = Violation { class: "capacity-contract".into(), detail: d.clone() };
            if let Some(k) = match_known(&known, prop, &v) {
                println!("KNOWN-FINDING: property={} class={} {}", prop, k.class, k.text);
            } else if pre_violation.is_none() {
                pre_violation = Some(json!({"format": "flurry-sim-c14-1", "property": "C14", "tier": tier, "seed": base, "class": "capacity-contract", "detail": d, "run_seed": base, "index": 0}));
            }
        }
    }
    if prop == "C19" {
        let (viol, st) = crate::c19::run(tier, base);
        pre_extra.insert("serde_cases".into(), st.cases);
        pre_extra.insert("serde_round_trips".into(), st.round_trips);
        pre_extra.insert("serde_generated_documents".into(), st.documents);
        pre_extra.insert("serde_documents_with_repeated_keys".into(), st.with_repeats);
        pre_extra.insert("serde_fault_free_cases".into(), st.fault_free);
        pre_extra.insert("serde_cases_through_a_length_announcing_deserializer".into(), st.hinted);
        pre_extra.insert("serde_cases_with_absent_or_wrong_length_hint".into(), st.wrong_hints);
        pre_extra.insert("serde_stream_faults_fired".into(), st.fired.short + st.fired.interrupted + st.fired.error + st.fired.eof);
        pre_extra.insert("serde_fault_short_transfer".into(), st.fired.short);
        pre_extra.insert("serde_fault_interrupted".into(), st.fired.interrupted);
        pre_extra.insert("serde_fault_hard_error".into(), st.fired.error);
        pre_extra.insert("serde_fault_eof_or_write_zero".into(), st.fired.eof);
        pre_extra.insert("serde_reads_ok".into(), st.read_ok);
        pre_extra.insert("serde_reads_failed_as_expected".into(), st.read_err);
        pre_extra.insert("serde_writes_failed_as_expected".into(), st.write_err);
        pre_extra.insert("serde_bytes_serialised".into(), st.bytes);
        pre_samples = st.samples.iter().map(|s| json!({"serde_case": s})).collect();
        println!(
            "C19 serde half: {} cases ({} round trips, {} documents, {} with repeated keys, {} fault-free), faults fired: {} short, {} EINTR, {} error, {} EOF; {} violations",
            st.cases, st.round_trips, st.documents, st.with_repeats, st.fault_free, st.fired.short, st.fired.interrupted, st.fired.error, st.fired.eof, viol.len()
        );
        let known = load_known();
        for (cs, d, case) in viol {
            let v = Violation { class: "serde-stream".into(), detail: d.clone() };
            if let Some(k) = match_known(&known, prop, &v) {
                println!("KNOWN-FINDING: property={} class={} {}", prop, k.class, k.text);
            } else if pre_violation.is_none() {
                pre_violation = Some(json!({"format": "flurry-sim-c19-1", "property": "C19", "tier": tier, "seed": base, "class": "serde-stream", "detail": d, "run_seed": cs, "index": 0, "case": case.to_json()}));
            }
        }
    }
    let results = spawn_workers(prop, tier, base, total, workers, false);
    let wall = t0.elapsed().as_secs_f64();
    let mut agg = Agg::default();
    let mut sched_fps: BTreeSet<u64> = BTreeSet::new();
    let mut violation: Option<Value> = None;
    let mut harness_error = false;
    for r in &results {
        agg.merge_json(&r.agg.to_json(true));
        for s in &r.agg.samples {
            if agg.samples.len() < 3 && !agg.samples.contains(s) {
                agg.samples.push(s.clone());
            }
        }
        sched_fps.extend(r.sched_fps.iter().copied());
        if let Some(v) = &r.violation {
            let better = match &violation {
                None => true,
                Some(b) => v["index"].as_u64() < b["index"].as_u64(),
            };
            if better {
                violation = Some(v.clone());
            }
        }
        if let Some((sig, index, seed)) = r.crash {
            let v = json!({"format": "flurry-sim-replay-1", "property": prop, "tier": tier, "index": index, "run_seed": seed, "class": "crash", "by_seed": true,
                "detail": format!("worker process died with signal {} while executing run index {} (run seed {})", sig, index, seed)});
            if violation.is_none() {
                violation = Some(v);
            }
        } else if r.exit != 0 && r.exit != 1 && r.exit != 4 {
            eprintln!("worker exited with status {}", r.exit);
            harness_error = true;
        }
    }
    for (k, n) in &pre_extra {
        agg.extra.insert(k.clone(), *n);
    }
    for sm in pre_samples {
        agg.samples.push(sm);
    }
    if let Some(pv) = pre_violation {
        violation = Some(pv);
    }
    let known = load_known();
    let mut known_lines = Vec::new();
    for (k, n) in &agg.known {
        let parts: Vec<&str> = k.splitn(3, '|').collect();
        let line = format!("KNOWN-FINDING: property={} class={} {} (seen in {} runs)", prop, parts[0], parts.get(2).unwrap_or(&""), n);
        println!("{}", line);
        known_lines.push(line);
    }
    let _ = known;
    let distinct = sched_fps.len() as u64;
    let level = props::level_of(prop);
    println!(
        "runs={} steps={} switches={} distinct-nontrivial-schedules={} shapes={} wall={:.1}s",
        agg.runs,
        agg.clock,
        agg.switches,
        distinct,
        agg.shape_fps.len(),
        wall
    );
    if harness_error {
        write_evidence(prop, tier, base, level, &agg, distinct, wall, 0, &known_lines);
        eprintln!("harness error");
        return 2;
    }
    match violation {
        None => {
            write_evidence(prop, tier, base, level, &agg, distinct, wall, 0, &known_lines);
            println!("OK property={} held on everything explored", prop);
            0
        }
        Some(v) => {
            write_evidence(prop, tier, base, level, &agg, distinct, wall, 1, &known_lines);
            report_violation(prop, v)
        }
    }
}

pub fn report_violation(prop: &str, v: Value) -> i32 {
    let dir = format!("{}/replays", verif_dir());
    let _ = std::fs::create_dir_all(&dir);
    let class = v["class"].as_str().unwrap_or("").to_string();
    println!("violation candidate: class={} index={} run_seed={}", class, v["index"], v["run_seed"]);
    println!("{}", v["detail"].as_str().unwrap_or(""));
    let mut v = v;
    if v.get("by_seed").and_then(|x| x.as_bool()).unwrap_or(false) && std::env::var("VERIF_NO_MINIMISE").is_err() {
        // a crash took its schedule with it: re-run the seed once with the schedule streamed to
        // a file, and continue with an explicit program + schedule if that reproduces the crash
        let tmp = format!("{}/crash-{}.rec", tmp_dir(), std::process::id());
        let seedfile = format!("{}/crash-{}.json", tmp_dir(), std::process::id());
        let _ = std::fs::write(&seedfile, v.to_string());
        let _ = Command::new(exe()).arg("replay").arg(&seedfile).arg("--record").arg(&tmp).stdout(Stdio::null()).stderr(Stdio::null()).status();
        if let Ok(text) = std::fs::read_to_string(&tmp) {
            let mut head: Option<Value> = None;
            let mut trace: Vec<Value> = Vec::new();
            for line in text.lines() {
                if let Some(rest) = line.strip_prefix("P ") {
                    head = serde_json::from_str(rest).ok();
                } else if let Some(rest) = line.strip_prefix("T ") {
                    let f: Vec<u64> = rest.split_whitespace().filter_map(|x| x.parse().ok()).collect();
                    if f.len() == 3 {
                        trace.push(json!([f[0], f[1], f[2]]));
                    }
                }
            }
            if let Some(h) = head {
                let mut full = v.clone();
                full["by_seed"] = json!(false);
                full["program"] = h["program"].clone();
                full["setup"] = h["setup"].clone();
                full["opts"] = h["opts"].clone();
                full["trace"] = Value::Array(trace);
                if try_candidate(&full, 0, "crashrec").is_some() {
                    v = full;
                }
            }
        }
        let _ = std::fs::remove_file(&tmp);
        let _ = std::fs::remove_file(&seedfile);
    }
    let by_seed = v.get("by_seed").and_then(|x| x.as_bool()).unwrap_or(false);
    let is_seq = matches!(v.get("format").and_then(|x| x.as_str()), Some("flurry-sim-seq-1") | Some("flurry-sim-c14-1") | Some("flurry-sim-c19-1") | Some("flurry-sim-stamp-1"));
    let min = if by_seed || is_seq || std::env::var("VERIF_NO_MINIMISE").is_ok() { v.clone() } else { minimise(v.clone(), 90) };
    let _ = std::fs::write(format!("{}/{}-{}-{}-unminimised.json", dir, prop, class, v["run_seed"].as_u64().unwrap_or(0)), serde_json::to_string_pretty(&v).unwrap());
    let path = format!("{}/{}-{}-{}.json", dir, prop, class, v["run_seed"].as_u64().unwrap_or(0));
    std::fs::write(&path, serde_json::to_string_pretty(&min).unwrap()).expect("write replay");
    // must reproduce in a fresh process
    let st = Command::new(exe()).arg("replay").arg(&path).stdout(Stdio::piped()).stderr(Stdio::null()).output();
    let ok = match &st {
        Ok(o) => {
            let code = o.status.code().unwrap_or(-1);
            code == 1 || (class == "crash" && (code == 3 || code == 1))
        }
        Err(_) => false,
    };
    if ok {
        if let Some(p) = min.get("program") {
            println!("minimised program: {}", p);
            println!("minimised schedule: {} entries", min["trace"].as_array().map(|a| a.len()).unwrap_or(0));
            println!("{}", min["detail"].as_str().unwrap_or(""));
        }
        println!("VIOLATION property={} replay={}", prop, path);
        1
    } else {
        // fall back to the unminimised file before giving up
        let path2 = format!("{}/{}-{}-{}-raw.json", dir, prop, class, v["run_seed"].as_u64().unwrap_or(0));
        std::fs::write(&path2, serde_json::to_string_pretty(&v).unwrap()).expect("write replay");
        let st = Command::new(exe()).arg("replay").arg(&path2).stdout(Stdio::null()).stderr(Stdio::null()).status();
        let code = st.ok().and_then(|s| s.code()).unwrap_or(-1);
        if code == 1 || (class == "crash" && code == 3) {
            println!("VIOLATION property={} replay={}", prop, path2);
            1
        } else {
            eprintln!("harness error: the failure did not reproduce from its replay file ({})", path2);
            2
        }
    }
}

/* ------------------------------ selfcheck ------------------------------ */

/// Determinism proof: many seeds, each run twice in different processes at two worker counts;
/// the per-run fingerprints (every decision point, site, event and the final clock) must be equal.
pub fn selfcheck_main(args: &[String]) -> i32 {
    let total: u64 = args.first().and_then(|x| x.parse().ok()).unwrap_or(2000);
    let base = base_seed();
    let mut bad = 0;
    let mut checked = 0u64;
    for prop in props::SIM_PROPS.iter() {
        if !props::implemented(prop) {
            continue;
        }
        let a = spawn_workers(prop, "quick", base, total, 16, true);
        let b = spawn_workers(prop, "quick", base, total, 1, true);
        let c = spawn_workers(prop, "quick", base, total, 5, true);
        let collect = |rs: &Vec<WorkerResult>| -> BTreeMap<u64, String> { rs.iter().flat_map(|r| r.fps.iter().cloned()).collect() };
        let (ma, mb, mc) = (collect(&a), collect(&b), collect(&c));
        for (k, va) in &ma {
            checked += 1;
            let vb = mb.get(k);
            let vc = mc.get(k);
            if vb.is_some() && vb != Some(va) || vc.is_some() && vc != Some(va) {
                bad += 1;
                if bad < 10 {
                    println!("DIVERGENCE prop={} index={} {:?} {:?} {:?}", prop, k, va, vb, vc);
                }
            }
        }
        println!("selfcheck {}: {} runs compared across worker counts 16/1/5", prop, ma.len());
    }
    println!("selfcheck: {} fingerprints compared, {} divergences", checked, bad);
    if bad == 0 {
        0
    } else {
        2
    }
}

pub fn gen_main(args: &[String]) -> i32 {
    let prop = args.first().map(|s| s.as_str()).unwrap_or("C01");
    let tier = args.get(1).map(|s| s.as_str()).unwrap_or("quick");
    let index: u64 = args.get(2).and_then(|x| x.parse().ok()).unwrap_or(0);
    let seed = run_seed(base_seed(), prop, index);
    let p = props::plan(prop, tier, seed);
    println!("{}", serde_json::to_string_pretty(&p.program.to_json()).unwrap());
    println!("strategy: {:?}", p.setup.strat);
    println!("faults: {:?}", p.setup.faults);
    0
}
