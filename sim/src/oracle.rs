//! Oracles: pure functions from a recorded run to violations.

use crate::exec::*;
use crate::lin::{self, KKind, KOp, St, ANY};
use crate::program::*;
use crate::types::NONE;
use flurry::verif::Ev;
use std::collections::BTreeMap;

#[derive(Clone, Debug)]
pub struct Violation {
    /// short stable class name (used to decide whether a minimised run still fails the same way)
    pub class: String,
    pub detail: String,
}

fn v(class: &str, detail: String) -> Violation {
    Violation {
        class: class.to_string(),
        detail,
    }
}

/// value id -> key, from the program text (values are unique per write)
pub fn vid_to_key(p: &Program) -> BTreeMap<u32, u32> {
    let mut m = BTreeMap::new();
    for &k in &p.cfg.prepop {
        m.insert(PREPOP_VID + k, k);
    }
    for t in &p.threads {
        for o in t {
            match o {
                Op::Insert(k, v) | Op::TryInsert(k, v) | Op::Compute(k, _, v) => {
                    m.insert(*v, *k);
                }
                Op::Extend(kv) | Op::ParExtend(kv, _, _) => {
                    for (k, v) in kv {
                        m.insert(*v, *k);
                    }
                }
                Op::Retain(Pred::ReinsertReject(k, v)) | Op::RetainForce(Pred::ReinsertReject(k, v)) => {
                    m.insert(*v, *k);
                }
                _ => {}
            }
        }
    }
    m
}

pub struct LinStats {
    pub keys_checked: usize,
    pub ops_checked: usize,
    pub states_explored: usize,
    pub max_ops_per_key: usize,
    pub skipped_keys: usize,
}

/// Per-key linearizability of the whole recorded history (C01, C08, C13, and the safety half of
/// C07), including the state observed at quiescence.
#[derive(Clone, Copy, PartialEq, Eq, Debug)]
pub enum Flavour {
    /// updates + point reads (get / contains_key / get_key_value): what C01 speaks about
    Point,
    /// updates + what iterators (and retain's internal iteration) yielded: what C07 speaks about.
    /// The two are judged separately because no property demands ONE order that explains both:
    /// a tree-bin insert publishes its node on the traversal list (seen by iterators) a few
    /// stores before it links it into the search tree (seen by lookups), exactly like the Java
    /// original; each view is consistent on its own.
    Iter,
}

pub fn linearizability(p: &Program, r: &RunResult, stats: &mut LinStats, flavour: Flavour) -> Vec<Violation> {
    let mut out = Vec::new();
    let point = flavour == Flavour::Point;
    let set = p.cfg.set;
    let v2k = vid_to_key(p);
    let mut per_key: BTreeMap<u32, Vec<KOp>> = BTreeMap::new();
    // resize generations that are in progress at some instant of [a, b]: `clear` starts over in
    // the next table every time it meets a forwarding marker, so it may sweep a key's bin once
    // per such generation (plus once in the table it started in)
    let resizes_in = |a: u64, b: u64| -> usize {
        let mut n = 0;
        for s in r.outcome.events.iter().filter(|e| e.ev == Ev::ResizeStarted && e.clock <= b) {
            let published = r.outcome.events.iter().find(|e| e.ev == Ev::Published && e.a == s.a && e.clock >= s.clock).map(|e| e.clock);
            if published.map(|pc| pc >= a).unwrap_or(true) {
                n += 1;
            }
        }
        n
    };
    // iterator open stamps per thread
    let mut iter_open: BTreeMap<u8, u64> = BTreeMap::new();
    let uni = universe(p);
    for h in &r.history {
        let mut push = |k: u32, kind: KKind, inv: u64, ret: u64, optional: bool| {
            per_key.entry(k).or_default().push(KOp {
                inv,
                ret,
                optional,
                kind,
                thread: h.thread,
                idx: h.idx,
            });
        };
        if let Res::Panic(_) = h.res {
            continue;
        }
        match (&h.op, &h.res) {
            (Op::Get(_), _) | (Op::Contains(_), _) | (Op::GetKV(_), _) if !point => {}
            (Op::Get(k), Res::Opt(x)) => push(*k, KKind::Get(*x), h.inv, h.ret, false),
            (Op::Get(k), Res::KV(x)) | (Op::GetKV(k), Res::KV(x)) if set => push(*k, KKind::SetGet(x.map(|y| y.0)), h.inv, h.ret, false),
            (Op::Contains(k), Res::Bool(b)) => push(*k, KKind::Contains(*b), h.inv, h.ret, false),
            (Op::GetKV(k), Res::KV(x)) => push(*k, KKind::GetKV(*x), h.inv, h.ret, false),
            (Op::Insert(k, _), Res::Bool(b)) | (Op::TryInsert(k, _), Res::Bool(b)) => push(*k, KKind::SetInsert(h.new_kinst, *b), h.inv, h.ret, false),
            (Op::Insert(k, vid), Res::Opt(old)) => push(*k, KKind::Insert(h.new_kinst, *vid, *old), h.inv, h.ret, false),
            (Op::TryInsert(k, vid), Res::TryOk) => push(*k, KKind::TryInsert(h.new_kinst, *vid, Ok(())), h.inv, h.ret, false),
            (Op::TryInsert(k, vid), Res::TryErr { cur, back_ok }) => {
                if !back_ok {
                    out.push(v("refused-value-damaged", format!("t{} op{} try_insert({}) was refused but the value handed back is not the one passed in", h.thread, h.idx, k)));
                }
                push(*k, KKind::TryInsert(h.new_kinst, *vid, Err(*cur)), h.inv, h.ret, false)
            }
            (Op::Remove(k), Res::Bool(b)) | (Op::Compute(k, _, _), Res::Bool(b)) => push(*k, KKind::SetRemove(*b), h.inv, h.ret, false),
            (Op::Remove(k), Res::Opt(x)) => push(*k, KKind::Remove(*x), h.inv, h.ret, false),
            (Op::RemoveEntry(k), Res::KV(x)) if set => {
                push(*k, KKind::SetRemove(x.is_some()), h.inv, h.ret, false);
            }
            (Op::RemoveEntry(k), Res::KV(x)) => push(*k, KKind::RemoveEntry(*x), h.inv, h.ret, false),
            (Op::Compute(k, cf, vid), Res::Compute { calls, saw, saw_n, ret, ret_n, .. }) => {
                let outv = match cf {
                    CFn::Remove => None,
                    _ => Some(*vid),
                };
                if *calls > 1 {
                    out.push(v("compute-called-twice", format!("t{} op{} compute_if_present({}) ran its function {} times", h.thread, h.idx, k, calls)));
                }
                if *cf == CFn::Inc && *calls == 1 && ret.is_some() && *ret_n != *saw_n + 1 {
                    out.push(v("compute-result-mismatch", format!("t{} op{} compute_if_present({}) saw n={} but the stored result has n={}", h.thread, h.idx, k, saw_n, ret_n)));
                }
                // if the closure never ran, what it "would" have produced is irrelevant
                let eff_out = if *calls == 0 { None } else { outv };
                push(*k, KKind::Compute { calls: *calls, saw: *saw, out: eff_out, ret: *ret }, h.inv, h.ret, false)
            }
            (Op::Retain(_), Res::Retain(log)) | (Op::RetainForce(_), Res::Retain(log)) | (Op::Retain(_), Res::RetainPanic(log, _)) | (Op::RetainForce(_), Res::RetainPanic(log, _)) => {
                let force = matches!(h.op, Op::RetainForce(_));
                for (i, rec) in log.iter().enumerate() {
                    if rec.k == u32::MAX - 1 {
                        continue;
                    }
                    if point {
                        // what retain's internal iterator saw belongs to the iterator view
                    } else if set {
                        push(rec.k, KKind::ObserveKey(rec.kinst), h.inv, rec.clock, false);
                    } else {
                        push(rec.k, KKind::Observe(rec.vid), h.inv, rec.clock, false);
                    }
                    if !rec.keep {
                        let end = log.get(i + 1).map(|n| n.clock).unwrap_or(h.ret);
                        // (the executor stops re-inserting after 40 nested inserts per call)
                        let nested_so_far = log.iter().take(i + 1).filter(|x| matches!(&h.op, Op::Retain(Pred::ReinsertReject(rk, _)) if *rk == x.k)).count();
                        let reinserted_by_predicate = matches!(&h.op, Op::Retain(Pred::ReinsertReject(rk, _)) if *rk == rec.k) && nested_so_far <= 40;
                        if set && reinserted_by_predicate {
                            // the element was re-inserted (its unit value replaced) after the
                            // inspection and before the removal attempt: retain must spare it
                        } else if set {
                            push(rec.k, KKind::ForceRemove, rec.clock, end, true);
                        } else if force {
                            push(rec.k, KKind::ForceRemove, rec.clock, end, false);
                        } else {
                            push(rec.k, KKind::CondRemove(rec.vid), rec.clock, end, false);
                        }
                    }
                }
            }
            (Op::Clear, Res::Unit) => {
                let extra = 1 + resizes_in(h.inv, h.ret);
                for &k in &uni {
                    for _ in 0..extra {
                        push(k, KKind::ForceRemove, h.inv, h.ret, true);
                    }
                }
            }
            (Op::Extend(kv), Res::Unit) | (Op::ParExtend(kv, _, _), Res::Unit) => {
                for (k, vid) in kv {
                    push(*k, KKind::BlindInsert(ANY, if set { 0 } else { *vid }), h.inv, h.ret, false);
                }
            }
            (Op::IterOpen(_), _) => {
                iter_open.insert(h.thread, h.inv);
            }
            (Op::IterAll(_), Res::Items { items, .. }) | (Op::IterNext(_), Res::Items { items, .. }) => {
                let start = if matches!(h.op, Op::IterAll(_)) { h.inv } else { *iter_open.get(&h.thread).unwrap_or(&h.inv) };
                for it in items {
                    if point {
                        break;
                    }
                    if it.k == u32::MAX - 1 || it.vid == u32::MAX - 1 {
                        continue; // invalid reference, reported by the executor
                    }
                    if it.k != NONE && (set || it.vid == NONE) {
                        push(it.k, KKind::ObserveKey(it.kinst), start, it.clock, false);
                    } else if it.k != NONE {
                        push(it.k, KKind::Observe(it.vid), start, it.clock, false);
                        push(it.k, KKind::ObserveKey(it.kinst), start, it.clock, false);
                    } else if let Some(&k) = v2k.get(&it.vid).or_else(|| v2k.get(&(it.vid % 10_000_000))) {
                        push(k, KKind::Observe(it.vid), start, it.clock, false);
                    } else {
                        out.push(v("iterator-unknown-value", format!("t{} op{} iterator yielded value id {} that no operation ever wrote", h.thread, h.idx, it.vid)));
                    }
                }
            }
            _ => {}
        }
    }
    let init: BTreeMap<u32, St> = r.initial.iter().cloned().collect();
    let fin: BTreeMap<u32, St> = r.quiescent.lookups.iter().map(|(k, x)| (*k, x.map(|y| (y.0, y.1)))).collect();
    for &k in &uni {
        let mut ops = per_key.remove(&k).unwrap_or_default();
        if let Some(f) = fin.get(&k) {
            ops.push(KOp {
                inv: r.end_clock + 1,
                ret: r.end_clock + 2,
                optional: false,
                kind: KKind::Final(*f),
                thread: 255,
                idx: 0,
            });
        }
        if ops.len() > 120 {
            stats.skipped_keys += 1;
            continue;
        }
        stats.keys_checked += 1;
        stats.ops_checked += ops.len();
        stats.max_ops_per_key = stats.max_ops_per_key.max(ops.len());
        let i0 = init.get(&k).cloned().unwrap_or(None);
        match lin::check(i0, &ops) {
            Ok(n) => stats.states_explored += n,
            Err(f) => {
                let mut lines = Vec::new();
                let mut sorted: Vec<&KOp> = ops.iter().collect();
                sorted.sort_by_key(|o| o.inv);
                for o in sorted {
                    lines.push(format!("  [{}..{}] t{} op{} {:?}{}", o.inv, if o.ret == u64::MAX { "pending".to_string() } else { o.ret.to_string() }, o.thread, o.idx, o.kind, if o.optional { " (optional)" } else { "" }));
                }
                let signature = tree_list_walk_signature(r, i0, &ops);
                out.push(v(
                    "not-linearizable",
                    format!(
                        "key {}: no sequential order explains the history (initial state {:?}; longest explainable prefix has {} of {} operations, state after it {:?})\n{}{}",
                        k,
                        i0,
                        f.best_prefix.len(),
                        ops.len(),
                        f.state_after,
                        lines.join("\n"),
                        signature
                    ),
                ));
            }
        }
    }
    out
}

/// Things that must never happen in any run: internal panics, harness-visible invalid
/// references, scheduler verdicts, inconsistent quiescent reads.
pub fn basic(r: &RunResult, injected_panic: bool) -> Vec<Violation> {
    let mut out = Vec::new();
    for h in &r.history {
        if let Res::Panic(m) | Res::RetainPanic(_, m) = &h.res {
            if injected_panic && m.starts_with("injected callback panic") {
                continue;
            }
            out.push(v("panic", format!("t{} op{} {:?} panicked: {}", h.thread, h.idx, h.op, m)));
        }
    }
    for (t, m) in &r.outcome.panics {
        out.push(v("panic", format!("thread {} panicked outside an operation: {}", t, m)));
    }
    if let Some(m) = &r.teardown_panic {
        out.push(v("panic", m.clone()));
    }
    for e in &r.quiescent.errors {
        out.push(v("quiescent-read", e.clone()));
    }
    out
}

pub fn verdicts(r: &RunResult) -> Vec<Violation> {
    use crate::sched::Verdict;
    match &r.outcome.verdict {
        None => vec![],
        Some(Verdict::Deadlock { states }) => vec![v("deadlock", format!("no thread can run: {}", states.join(" ")))],
        Some(Verdict::Livelock { clock, states }) => vec![v("livelock", format!("operations did not complete within the fair-scheduling bound (clock {}): {}", clock, states.join(" ")))],
        Some(Verdict::ForbiddenBlock { thread, what, clock }) => vec![v("reader-blocked", format!("read-only thread {} reached a {} seam at clock {}", thread, what, clock))],
        Some(Verdict::OwnStepBound { thread, steps }) => vec![v("reader-unbounded", format!("an operation of thread {} did not finish within its bound of own steps ({} steps so far)", thread, steps))],
    }
}

/// `collect()` must produce exactly the supplied keys, each with the last value supplied for it.
pub fn collects(r: &RunResult) -> Vec<Violation> {
    let mut out = Vec::new();
    for h in &r.history {
        if let (Op::Collect(kv, _), Res::Items { items, .. }) = (&h.op, &h.res) {
            let mut want: BTreeMap<u32, u32> = BTreeMap::new();
            for (k, vv) in kv {
                want.insert(*k, *vv);
            }
            let mut got: Vec<(u32, u32)> = items.iter().map(|i| (i.k, i.vid)).collect();
            got.sort_unstable();
            let wantv: Vec<(u32, u32)> = want.into_iter().collect();
            if got != wantv {
                out.push(v("collect-wrong-contents", format!("t{} op{} collect() of {} pairs yields {:?}, expected {:?}", h.thread, h.idx, kv.len(), got, wantv)));
            }
        }
    }
    out
}

/// Recognises one specific anomaly (finding F9) in a per-key history that is not linearizable:
/// a lookup N answered "absent" after it had walked the linear list of a tree bin, it returned
/// while a successful removal R of the key was still in flight, a later lookup S that started
/// after N had returned - and before R returned - still found the key, and without N the history
/// is linearizable. (`remove_tree_node` unlinks the node from the linear list first and from the
/// tree only later, under the root lock; a reader that walked most of the list during an earlier
/// writer's critical section and reads the last `next` pointer in between sees the list without
/// the node while tree-path readers still find it.) Returns a marker line for the violation text,
/// or nothing.
fn tree_list_walk_signature(r: &RunResult, init: St, ops: &[KOp]) -> String {
    let absent = |k: &KKind| matches!(k, KKind::Get(None) | KKind::GetKV(None) | KKind::Contains(false) | KKind::SetGet(None));
    let present = |k: &KKind| matches!(k, KKind::Get(Some(_)) | KKind::GetKV(Some(_)) | KKind::Contains(true) | KKind::SetGet(Some(_)));
    let removed = |k: &KKind| matches!(k, KKind::Remove(Some(_)) | KKind::RemoveEntry(Some(_)) | KKind::SetRemove(true) | KKind::Compute { saw: Some(_), out: None, .. });
    for (i, n) in ops.iter().enumerate() {
        if !absent(&n.kind) || n.ret == u64::MAX {
            continue;
        }
        let walked_list = r.outcome.events.iter().any(|e| e.ev == Ev::ReaderListFallback && e.thread == n.thread && e.clock >= n.inv && e.clock <= n.ret);
        if !walked_list {
            continue;
        }
        let in_flight_removal = ops.iter().any(|x| removed(&x.kind) && x.inv < n.ret && n.ret < x.ret && ops.iter().any(|s| present(&s.kind) && s.inv > n.ret && s.inv < x.ret));
        if !in_flight_removal {
            continue;
        }
        let mut rest: Vec<KOp> = ops.to_vec();
        rest.remove(i);
        if lin::check(init, &rest).is_ok() {
            return format!(
                "\n  [signature F9: the lookup of thread {} at [{}..{}] walked the linear list of a tree bin and reported the key absent while a removal that had unlinked the node from that list had not yet removed it from the tree; a later lookup still found it; without that lookup the history is linearizable]",
                n.thread, n.inv, n.ret
            );
        }
    }
    String::new()
}

/// Relations between the shared collection and its never-modified twin (`==` in all owned/ref
/// combinations, set relations). Under concurrent writes the answer is whatever a weakly
/// consistent comparison gives; when nothing in the whole program writes, both sides hold the
/// pre-populated contents and the answers are fixed. (`map == map` on itself likewise.)
pub fn relations(p: &Program, r: &RunResult) -> Vec<Violation> {
    let mut out = Vec::new();
    let writes = p.threads.iter().flatten().any(|o| {
        !matches!(
            o,
            Op::Get(..) | Op::Contains(..) | Op::GetKV(..) | Op::Len | Op::EqSelf | Op::Rel(_) | Op::IterAll(..) | Op::IterOpen(..) | Op::IterNext(..) | Op::IterClose | Op::Pin | Op::Unpin | Op::Refresh | Op::Flush | Op::Recheck | Op::ParHelp(_)
        )
    });
    if writes {
        return out;
    }
    let empty = p.cfg.prepop.iter().all(|k| p.cfg.preremove.contains(k));
    for h in &r.history {
        let want = match (&h.op, p.cfg.set) {
            (Op::EqSelf, _) => true,
            (Op::Rel(k), true) if *k == 7 => empty,
            (Op::Rel(_), _) => true,
            _ => continue,
        };
        if let Res::Bool(got) = h.res {
            if got != want {
                out.push(v("wrong-relation", format!("t{} op{} {:?} answered {} on collections that nobody modifies (expected {})", h.thread, h.idx, h.op, got, want)));
            }
        }
    }
    out
}

/// C19: `from_par_iter` must produce exactly the supplied keys, each with one of the values
/// supplied for it (which one is up to the order in which the pool runs the parts).
pub fn par_collects(r: &RunResult) -> Vec<Violation> {
    let mut out = Vec::new();
    for h in &r.history {
        if let (Op::ParCollect(kv, parts), Res::Items { items, .. }) = (&h.op, &h.res) {
            let mut want: BTreeMap<u32, Vec<u32>> = BTreeMap::new();
            for (k, vv) in kv {
                want.entry(*k).or_default().push(*vv);
            }
            let mut got_keys: Vec<u32> = items.iter().map(|i| i.k).collect();
            got_keys.sort_unstable();
            let want_keys: Vec<u32> = want.keys().copied().collect();
            if got_keys != want_keys {
                out.push(v("par-collect-wrong-keys", format!("t{} op{} from_par_iter() of {} items in {} parts yields keys {:?}, sequential insertion yields {:?}", h.thread, h.idx, kv.len(), parts, got_keys, want_keys)));
                continue;
            }
            for it in items {
                // sets carry no values (value id 0)
                if it.vid != 0 && !want.get(&it.k).map(|vs| vs.contains(&it.vid)).unwrap_or(false) {
                    out.push(v("par-collect-wrong-value", format!("t{} op{} from_par_iter(): key {} is mapped to value {} which was not supplied for it (supplied: {:?})", h.thread, h.idx, it.k, it.vid, want.get(&it.k))));
                }
            }
        }
    }
    out
}

/// C03: references and memory.
pub fn memory(r: &RunResult) -> Vec<Violation> {
    let mut out = Vec::new();
    for e in &r.retire_errors {
        out.push(v("retired-while-reachable", e.clone()));
    }
    for e in &r.ref_errors {
        out.push(v("dangling-reference", e.clone()));
    }
    if r.alloc.double_free > 0 {
        out.push(v("double-free", format!("{} block(s) freed twice during the run", r.alloc.double_free)));
    }
    for (ptr, size, off, byte) in &r.alloc.damaged {
        let _ = ptr;
        out.push(v("write-after-free", format!("a freed block of {} bytes was written at offset {} (found byte {:#04x}) after it was released", size, off, byte)));
    }
    for e in &r.ledger_violations {
        if e.contains("freed(poisoned)") || e.contains("corrupted") {
            out.push(v("drop-of-freed-object", e.clone()));
        }
    }
    out
}

/// C04: every instance dropped exactly once; nothing dropped while an older guard could see it.
pub fn drops(r: &RunResult) -> Vec<Violation> {
    let mut out = Vec::new();
    for e in &r.ledger_violations {
        out.push(v("double-drop", e.clone()));
    }
    let mut leaked = 0usize;
    let mut first = None;
    for (i, inst) in r.insts.iter().enumerate() {
        if inst.drops == 0 {
            leaked += 1;
            if first.is_none() {
                first = Some((i, inst.clone()));
            }
        }
    }
    if leaked > 0 {
        let (i, inst) = first.unwrap();
        out.push(v(
            "leak",
            format!(
                "{} instance(s) were never dropped after the map was torn down; first: {} instance {} (logical {}, created at clock {} by t{}, cloned from {})",
                leaked,
                if inst.is_key { "key" } else { "value" },
                i,
                inst.logical,
                inst.created_clock,
                inst.created_thread,
                if inst.parent == NONE { "nothing".to_string() } else { inst.parent.to_string() }
            ),
        ));
    }
    // timing: a value displaced by operation O must not be dropped while a guard entered before
    // O's invocation is still live
    let mut displaced_by: BTreeMap<u32, (u64, u8, u16)> = BTreeMap::new();
    for h in &r.history {
        let vid = match &h.res {
            Res::Opt(Some(x)) if matches!(h.op, Op::Insert(..) | Op::Remove(..)) => Some(*x),
            Res::KV(Some((_, x))) if matches!(h.op, Op::RemoveEntry(..)) => Some(*x),
            Res::Compute { calls: 1, saw: Some(x), .. } => Some(*x),
            _ => None,
        };
        if let Some(x) = vid {
            displaced_by.entry(x).or_insert((h.inv, h.thread, h.idx));
        }
    }
    for inst in r.insts.iter().filter(|i| !i.is_key && i.drops >= 1 && i.dropped_in_run && i.parent == NONE) {
        if let Some(&(inv, t, idx)) = displaced_by.get(&inst.logical) {
            for g in &r.guards {
                if g.enter < inv && g.exit > inst.drop_clock && inst.drop_clock > 0 {
                    out.push(v(
                        "dropped-under-live-guard",
                        format!(
                            "value {} displaced by t{} op{} (invoked at clock {}) was dropped at clock {} while thread {}'s guard entered at clock {} was still live (released at {})",
                            inst.logical, t, idx, inv, inst.drop_clock, g.thread, g.enter, g.exit
                        ),
                    ));
                    break;
                }
            }
        }
    }
    out
}

/// C05: at quiescence iteration, lookups and len agree; table well formed.
pub fn quiescent_consistency(p: &Program, r: &RunResult) -> Vec<Violation> {
    let mut out = Vec::new();
    let q = &r.quiescent;
    let present: Vec<(u32, u32, u32)> = q.lookups.iter().filter_map(|(k, x)| x.map(|y| (*k, y.0, y.1))).collect();
    let mut it = q.iter.clone();
    it.sort_unstable();
    let mut pr = present.clone();
    pr.sort_unstable();
    if it != pr {
        out.push(v("iter-lookup-mismatch", format!("iteration yields {:?} (k, key instance, value) but lookups find {:?}", it, pr)));
    }
    for w in it.windows(2) {
        if w[0].0 == w[1].0 {
            out.push(v("iter-duplicate", format!("iteration yields key {} twice at quiescence", w[0].0)));
        }
    }
    let mut ks = q.keys.clone();
    ks.sort_unstable();
    let mut pk: Vec<u32> = present.iter().map(|x| x.0).collect();
    pk.sort_unstable();
    if ks != pk {
        out.push(v("keys-lookup-mismatch", format!("keys() yields {:?} but lookups find {:?}", ks, pk)));
    }
    if !p.cfg.set {
        let mut vs = q.values.clone();
        vs.sort_unstable();
        let mut pv: Vec<u32> = present.iter().map(|x| x.2).collect();
        pv.sort_unstable();
        if vs != pv {
            out.push(v("values-lookup-mismatch", format!("values() yields {:?} but lookups find {:?}", vs, pv)));
        }
    }
    if q.len != present.len() {
        out.push(v("len-mismatch", format!("len() is {} but {} keys are present", q.len, present.len())));
    }
    if q.is_empty != present.is_empty() {
        out.push(v("is-empty-mismatch", format!("is_empty() is {} but {} keys are present", q.is_empty, present.len())));
    }
    if let Some(rep) = &q.inspect {
        for e in &rep.wellformed_errors {
            out.push(v("malformed-table", e.clone()));
        }
        let mut es: Vec<(u32, u32, u32)> = rep.entries.iter().map(|e| (e.0, e.1, e.2)).collect();
        es.sort_unstable();
        if es != pr {
            out.push(v("structure-lookup-mismatch", format!("the table physically holds {:?} but lookups find {:?}", es, pr)));
        }
    }
    out
}

/// C06: tree shape at quiescence (and, when sampled during the run, at every sample).
pub fn trees(r: &RunResult) -> Vec<Violation> {
    let mut out = Vec::new();
    for e in &r.midrun_errors {
        out.push(v("tree-invariant-midrun", e.clone()));
    }
    if let Some(rep) = &r.quiescent.inspect {
        for e in &rep.tree_errors {
            out.push(v("tree-invariant", e.clone()));
        }
    }
    out
}

fn mutates(op: &Op) -> bool {
    matches!(
        op,
        Op::Insert(..) | Op::TryInsert(..) | Op::Remove(..) | Op::RemoveEntry(..) | Op::Compute(..) | Op::Extend(..) | Op::ParExtend(..) | Op::Retain(..) | Op::RetainForce(..) | Op::Clear
    )
}

pub struct IterStats {
    pub iterations: usize,
    pub complete: usize,
    pub stable_keys_checked: usize,
    pub overlapped_by_resize: usize,
    pub overlapped_by_writes: usize,
}

/// C07: weak consistency of iterators. Safety (nothing yielded that was never there) is part of
/// the linearizability check (`Observe`); this adds completeness: a key that is present and
/// untouched for the whole iteration is yielded exactly once; an absent untouched key never.
pub fn iterators(p: &Program, r: &RunResult, st: &mut IterStats) -> Vec<Violation> {
    let mut out = Vec::new();
    let set = p.cfg.set;
    let v2k = vid_to_key(p);
    let uni = universe(p);
    // collect iterations: (thread, t0, t1, complete, items)
    struct It {
        thread: u8,
        t0: u64,
        t1: u64,
        complete: bool,
        keys: Vec<u32>,
        keys_known: bool,
    }
    let mut its: Vec<It> = Vec::new();
    let mut open: BTreeMap<u8, It> = BTreeMap::new();
    for h in &r.history {
        match (&h.op, &h.res) {
            (Op::IterAll(_), Res::Items { items, done }) => {
                let mut keys = Vec::new();
                let mut known = true;
                for it in items {
                    if it.k != NONE {
                        keys.push(it.k);
                    } else if let Some(&k) = v2k.get(&it.vid).or_else(|| v2k.get(&(it.vid % 10_000_000))) {
                        keys.push(k);
                    } else {
                        known = false;
                    }
                }
                its.push(It { thread: h.thread, t0: h.inv, t1: h.ret, complete: *done, keys, keys_known: known });
            }
            (Op::IterOpen(_), Res::Unit) => {
                if let Some(prev) = open.remove(&h.thread) {
                    its.push(prev);
                }
                open.insert(h.thread, It { thread: h.thread, t0: h.inv, t1: h.ret, complete: false, keys: vec![], keys_known: true });
            }
            (Op::IterNext(_), Res::Items { items, done }) => {
                if let Some(cur) = open.get_mut(&h.thread) {
                    if cur.complete {
                        continue;
                    }
                    for it in items {
                        if it.k != NONE {
                            cur.keys.push(it.k);
                        } else if let Some(&k) = v2k.get(&it.vid).or_else(|| v2k.get(&(it.vid % 10_000_000))) {
                            cur.keys.push(k);
                        } else {
                            cur.keys_known = false;
                        }
                    }
                    cur.t1 = h.ret;
                    if *done {
                        cur.complete = true;
                    }
                }
            }
            (Op::IterClose, _) | (Op::Unpin, _) | (Op::Refresh, _) => {
                if let Some(prev) = open.remove(&h.thread) {
                    its.push(prev);
                }
            }
            _ => {}
        }
    }
    its.extend(open.into_values());
    let init: BTreeMap<u32, St> = r.initial.iter().cloned().collect();
    for it in &its {
        st.iterations += 1;
        if !it.complete || !it.keys_known {
            continue;
        }
        st.complete += 1;
        if r.outcome.events.iter().any(|e| matches!(e.ev, Ev::BinMigrated | Ev::Published) && e.clock >= it.t0 && e.clock <= it.t1) {
            st.overlapped_by_resize += 1;
        }
        // operations whose effect is not confined to one key make every key unstable if they overlap
        let global_overlap = r.history.iter().any(|h| matches!(h.op, Op::Retain(..) | Op::RetainForce(..) | Op::Clear) && h.thread != it.thread && h.inv <= it.t1 && h.ret >= it.t0);
        if r.history.iter().any(|h| mutates(&h.op) && h.thread != it.thread && h.inv <= it.t1 && h.ret >= it.t0) {
            st.overlapped_by_writes += 1;
        }
        if global_overlap {
            continue;
        }
        for &k in &uni {
            // every mutating operation on k must lie entirely before t0 or entirely after t1
            let mut before: Vec<KOp> = Vec::new();
            let mut stable = true;
            for h in &r.history {
                if matches!(h.res, Res::Panic(_)) {
                    continue;
                }
                let touches = match &h.op {
                    Op::Extend(kv) | Op::ParExtend(kv, _, _) => kv.iter().any(|x| x.0 == k),
                    Op::Retain(..) | Op::RetainForce(..) | Op::Clear => true,
                    o => o.key() == Some(k),
                };
                if !touches || !mutates(&h.op) {
                    continue;
                }
                if h.ret < it.t0 {
                    // reuse the linearizability vocabulary for the prefix
                    let kind = match (&h.op, &h.res) {
                        (Op::Insert(_, _), Res::Bool(b)) | (Op::TryInsert(_, _), Res::Bool(b)) => KKind::SetInsert(h.new_kinst, *b),
                        (Op::Insert(_, vid), Res::Opt(old)) => KKind::Insert(h.new_kinst, *vid, *old),
                        (Op::TryInsert(_, vid), Res::TryOk) => KKind::TryInsert(h.new_kinst, *vid, Ok(())),
                        (Op::TryInsert(_, vid), Res::TryErr { cur, .. }) => KKind::TryInsert(h.new_kinst, *vid, Err(*cur)),
                        (Op::Remove(_), Res::Bool(b)) | (Op::Compute(..), Res::Bool(b)) => KKind::SetRemove(*b),
                        (Op::Remove(_), Res::Opt(x)) => KKind::Remove(*x),
                        (Op::RemoveEntry(_), Res::KV(x)) if set => KKind::SetRemove(x.is_some()),
                        (Op::RemoveEntry(_), Res::KV(x)) => KKind::RemoveEntry(*x),
                        (Op::Compute(_, cf, vid), Res::Compute { calls, saw, ret, .. }) => KKind::Compute {
                            calls: *calls,
                            saw: *saw,
                            out: if *calls == 0 || *cf == CFn::Remove { None } else { Some(*vid) },
                            ret: *ret,
                        },
                        (Op::Extend(kv), _) | (Op::ParExtend(kv, _, _), _) => {
                            let vid = kv.iter().rev().find(|x| x.0 == k).map(|x| x.1).unwrap_or(0);
                            KKind::BlindInsert(ANY, if set { 0 } else { vid })
                        }
                        _ => {
                            // retain / clear before t0: effect on this key not reconstructed here
                            stable = false;
                            break;
                        }
                    };
                    before.push(KOp { inv: h.inv, ret: h.ret, optional: false, kind, thread: h.thread, idx: h.idx });
                } else if h.inv > it.t1 {
                    // after the iteration: irrelevant
                } else {
                    stable = false;
                    break;
                }
            }
            if !stable {
                continue;
            }
            let i0 = init.get(&k).cloned().unwrap_or(None);
            let Some(states) = lin::possible_states(i0, &before) else { continue };
            let all_present = states.iter().all(|s| s.is_some());
            let all_absent = states.iter().all(|s| s.is_none());
            let count = it.keys.iter().filter(|&&x| x == k).count();
            st.stable_keys_checked += 1;
            if all_present && count != 1 {
                out.push(v(
                    if count == 0 { "iterator-missed-key" } else { "iterator-duplicate-key" },
                    format!("thread {}'s iteration over clocks [{}..{}] yielded key {} {} times although the key was present and untouched for the whole iteration (yielded keys: {:?})", it.thread, it.t0, it.t1, k, count, it.keys),
                ));
            } else if all_absent && count != 0 {
                out.push(v("iterator-phantom-key", format!("thread {}'s iteration over clocks [{}..{}] yielded key {} which was absent and untouched for the whole iteration", it.thread, it.t0, it.t1, k)));
            }
        }
    }
    out
}

/// C08 closed form: a key that is only ever written by increment-computes ends with n = number
/// of computes whose function ran.
pub fn counters(p: &Program, r: &RunResult, checked: &mut usize) -> Vec<Violation> {
    let mut out = Vec::new();
    if p.cfg.set {
        return out;
    }
    for &k in &universe(p) {
        let mut only_inc = true;
        let mut incs = 0u64;
        for h in &r.history {
            let touches = match &h.op {
                Op::Extend(kv) | Op::ParExtend(kv, _, _) => kv.iter().any(|x| x.0 == k),
                Op::Retain(..) | Op::RetainForce(..) | Op::Clear => true,
                o => o.key() == Some(k),
            };
            if !touches || !mutates(&h.op) {
                continue;
            }
            match (&h.op, &h.res) {
                (Op::Compute(_, CFn::Inc, _), Res::Compute { calls, .. }) => incs += *calls as u64,
                _ => only_inc = false,
            }
        }
        if !only_inc {
            continue;
        }
        let was_present = r.initial.iter().any(|(kk, s)| *kk == k && s.is_some());
        if !was_present {
            continue;
        }
        *checked += 1;
        match r.quiescent.lookups.iter().find(|x| x.0 == k) {
            Some((_, Some((_, _, n)))) => {
                if *n != incs {
                    out.push(v("lost-update", format!("counter key {}: {} increment functions ran but the final count is {}", k, incs, n)));
                }
            }
            Some((_, None)) => out.push(v("lost-update", format!("counter key {} vanished although it was only ever incremented", k))),
            None => {}
        }
    }
    out
}

#[derive(Default)]
pub struct ResizeStats {
    pub generations: usize,
    pub multi_helper_generations: usize,
    pub max_helpers: usize,
    pub overlapping_second_threshold: usize,
}

/// C10: the resize protocol judged from its site events and the quiescent structure.
pub fn resizes(r: &RunResult, rs: &mut ResizeStats) -> Vec<Violation> {
    let mut out = Vec::new();
    struct Gen {
        started: Vec<u64>,
        migrated: BTreeMap<usize, Vec<u64>>,
        published: Vec<u64>,
        helpers: BTreeMap<u8, u32>,
    }
    let mut gens: BTreeMap<usize, Gen> = BTreeMap::new();
    for e in &r.outcome.events {
        let g = || Gen { started: vec![], migrated: BTreeMap::new(), published: vec![], helpers: BTreeMap::new() };
        match e.ev {
            Ev::ResizeStarted => gens.entry(e.a).or_insert_with(g).started.push(e.clock),
            Ev::BinMigrated => {
                let ge = gens.entry(e.a).or_insert_with(g);
                ge.migrated.entry(e.b).or_default().push(e.clock);
                *ge.helpers.entry(e.thread).or_insert(0) += 1;
            }
            Ev::Published => gens.entry(e.a).or_insert_with(g).published.push(e.clock),
            _ => {}
        }
    }
    // If tables were published but not a single migration event exists, the site-event lines of
    // the hook commits are gone from `transfer` (a refactoring would do that): the ledger cannot
    // judge anything then, and saying so beats raising an alarm.
    if gens.values().any(|g| !g.published.is_empty()) && gens.values().all(|g| g.migrated.is_empty()) {
        rs.generations += gens.len();
        return out;
    }
    let mut prev_pub: Option<(usize, u64)> = None;
    for (n, g) in &gens {
        rs.generations += 1;
        rs.max_helpers = rs.max_helpers.max(g.helpers.len());
        if g.helpers.len() > 1 {
            rs.multi_helper_generations += 1;
        }
        if g.started.len() != 1 {
            out.push(v("resize-started-twice", format!("resize of the {}-bin table was started {} times (clocks {:?})", n, g.started.len(), g.started)));
        }
        for i in 0..*n {
            match g.migrated.get(&i).map(|x| x.len()).unwrap_or(0) {
                1 => {}
                0 => out.push(v("bin-not-migrated", format!("resize of the {}-bin table never migrated bin {}", n, i))),
                c => out.push(v("bin-migrated-twice", format!("resize of the {}-bin table migrated bin {} {} times (clocks {:?})", n, i, c, g.migrated[&i]))),
            }
        }
        for i in g.migrated.keys() {
            if *i >= *n {
                out.push(v("bin-out-of-range", format!("resize of the {}-bin table migrated bin index {}", n, i)));
            }
        }
        match g.published.len() {
            1 => {
                let pc = g.published[0];
                if let Some(last) = g.migrated.values().flat_map(|x| x.iter()).max() {
                    if *last > pc {
                        out.push(v("published-before-complete", format!("the table replacing the {}-bin table was published at clock {} but a bin was migrated at clock {}", n, pc, last)));
                    }
                }
                if let Some(s) = g.started.first() {
                    if let Some((pn, ppc)) = prev_pub {
                        if *s < ppc {
                            out.push(v("generations-overlap", format!("resize of the {}-bin table started at clock {} before the resize of the {}-bin table was published at clock {}", n, s, pn, ppc)));
                        }
                    }
                }
                prev_pub = Some((*n, pc));
            }
            0 => out.push(v("resize-not-published", format!("resize of the {}-bin table was started but its successor was never published", n))),
            c => out.push(v("published-twice", format!("the successor of the {}-bin table was published {} times (clocks {:?})", n, c, g.published))),
        }
    }
    // doubling chain: n, 2n, 4n, ... and the final table is the last successor
    let ns: Vec<usize> = gens.keys().copied().collect();
    for w in ns.windows(2) {
        if w[1] != w[0] * 2 {
            out.push(v("not-doubling", format!("table lengths resized: {:?} (each generation must double the previous)", ns)));
            break;
        }
    }
    if let (Some(last), Some(rep)) = (ns.last(), r.quiescent.inspect.as_ref()) {
        if gens[last].published.len() == 1 && rep.table_len != last * 2 {
            out.push(v("wrong-new-length", format!("after resizing the {}-bin table the current table has {} bins", last, rep.table_len)));
        }
    }
    if let (Some(first), true) = (ns.first(), r.initial_table_len > 0) {
        if *first != r.initial_table_len && !r.outcome.events.iter().any(|e| e.ev == Ev::TableInit) {
            out.push(v("wrong-old-length", format!("first resize was of a {}-bin table but the table had {} bins", first, r.initial_table_len)));
        }
    }
    out
}

/// C06 lookup cost: key comparisons used by get/contains_key at quiescence.
pub fn lookup_cost(p: &Program, r: &RunResult, checked: &mut usize, max_seen: &mut u64) -> Vec<Violation> {
    let mut out = Vec::new();
    let Some(rep) = &r.quiescent.inspect else { return out };
    if rep.table_len == 0 {
        return out;
    }
    for (k, present, cmps) in &r.quiescent.lookup_cost {
        let bin = (p.cfg.hash.hash(*k) as usize) & (rep.table_len - 1);
        let Some(&(kind, size)) = rep.bins.get(bin) else { continue };
        // any bin of 8 or more entries in a table of at least 64 bins, whatever it is organised as
        if !(kind == 1 || kind == 2) || size < 8 || rep.table_len < 64 {
            continue;
        }
        *checked += 1;
        *max_seen = (*max_seen).max(*cmps);
        let bound = (4.0 * ((size + 1) as f64).log2()).ceil() as u64 + 2;
        if *cmps > bound {
            out.push(v(
                "lookup-too-expensive",
                format!("looking up {} key {} in a {} bin of {} entries used {} key comparisons (bound 4*log2(n+1)+2 = {})", if *present { "present" } else { "absent" }, k, if kind == 2 { "tree" } else { "list" }, size, cmps, bound),
            ));
        }
    }
    out
}

/// C14 (concurrent half, growth side): under any schedule the table never grows beyond what
/// the keys the program can ever hold at once justify. Applies to programs with the identity hash
/// (bin = key & (len - 1)), no reservations, and a key universe that cannot overfill a bin of the
/// initial table: the table may double only while the number of distinct keys of the universe -
/// an upper bound of the entry count at any instant - reaches three quarters of its length.
pub fn growth_justified(p: &Program, r: &RunResult) -> Vec<Violation> {
    let mut out = Vec::new();
    if p.cfg.hash != crate::types::HashKind::Identity {
        return out;
    }
    // (`extend` reserves room for half of its size hint before inserting, and how much a
    // reservation provides is `try_presize`'s business, judged in the single-client half)
    if p.threads.iter().flatten().any(|o| matches!(o, Op::Reserve(_) | Op::Extend(_) | Op::ParExtend(..) | Op::ParCollect(..))) {
        return out;
    }
    let Some(rep) = &r.quiescent.inspect else { return out };
    let init = if r.initial_table_len > 0 {
        r.initial_table_len
    } else {
        match r.outcome.events.iter().find(|e| e.ev == Ev::TableInit) {
            Some(e) => e.a,
            None => return out, // never allocated
        }
    };
    let uni = crate::exec::universe(p);
    let mut load = vec![0usize; init];
    for k in &uni {
        load[(*k as usize) & (init - 1)] += 1;
    }
    if load.iter().any(|&l| l >= 8) {
        return out; // the overfull-bin rule may ask for growth on its own
    }
    // The entry count the growth rule looks at is flurry's counter, which a removal decrements
    // after it has unlinked the entry (and released the bin): a key can be re-inserted in that
    // window, so the counter may exceed the number of entries present by one per removal in
    // flight, i.e. by at most one per thread that removes. (clear/retain settle their whole tally
    // at the end: not judged here.)
    if p.threads.iter().flatten().any(|o| matches!(o, Op::Clear | Op::Retain(_) | Op::RetainForce(_))) {
        return out;
    }
    // (on a set every `Compute` operation is executed as `remove`)
    let set = p.cfg.set;
    let removers = p.threads.iter().filter(|t| t.iter().any(|o| matches!(o, Op::Remove(_) | Op::RemoveEntry(_) | Op::Compute(_, CFn::Remove, _)) || (set && matches!(o, Op::Compute(..))))).count();
    let bound = uni.len() + removers;
    let mut allowed = init;
    while bound >= allowed - (allowed >> 2) {
        allowed <<= 1;
    }
    if rep.table_len > allowed {
        out.push(v(
            "unjustified-growth",
            format!(
                "the table grew from {} to {} bins although the entry count can never exceed {} ({} distinct keys + {} removals in flight; {} bins suffice: three quarters of that is {})",
                init,
                rep.table_len,
                bound,
                uni.len(),
                removers,
                allowed,
                allowed - (allowed >> 2)
            ),
        ));
    }
    out
}

/// C14 (concurrent half): removals never make the table grow; lengths only ever double.
pub fn no_growth_on_removal(p: &Program, r: &RunResult) -> Vec<Violation> {
    let mut out = Vec::new();
    // (a predicate that re-inserts the entry it is shown makes its retain an inserting operation)
    let reinserting = p.threads.iter().flatten().any(|o| matches!(o, Op::Retain(Pred::ReinsertReject(..)) | Op::RetainForce(Pred::ReinsertReject(..))));
    let removal_only = !reinserting && p.threads.iter().flatten().all(|o| {
        matches!(
            o,
            Op::Remove(..) | Op::RemoveEntry(..) | Op::Compute(_, CFn::Remove, _) | Op::Retain(..) | Op::RetainForce(..) | Op::Clear | Op::Get(..) | Op::Contains(..) | Op::GetKV(..) | Op::Len | Op::EqSelf | Op::Rel(_) | Op::IterAll(..) | Op::IterOpen(..) | Op::IterNext(..) | Op::IterClose | Op::Pin | Op::Unpin | Op::Refresh | Op::Flush | Op::Recheck
        )
    });
    // (site events are not attributed to a collection: a `clone()` builds - and may resize - a
    // table of its own, so for programs that clone only the target's table length is judged)
    let clones = p.threads.iter().flatten().any(|o| matches!(o, Op::IterAll(IterKind::Clone)));
    if removal_only {
        for e in r.outcome.events.iter().filter(|_| !clones) {
            if matches!(e.ev, Ev::ResizeStarted | Ev::Published) {
                out.push(v(
                    "growth-on-removal",
                    format!("the table of {} bins was resized at clock {} by thread {} although the program only removes and reads", e.a, e.clock, e.thread),
                ));
                break;
            }
        }
        if let Some(rep) = &r.quiescent.inspect {
            if r.initial_table_len > 0 && rep.table_len != r.initial_table_len {
                out.push(v("growth-on-removal", format!("table length changed from {} to {} in a program that only removes and reads", r.initial_table_len, rep.table_len)));
            }
        }
    }
    out
}

/// C18: the injected panic reaches the caller of exactly the operation whose callback panicked.
pub fn panic_propagation(r: &RunResult, opts: &ExecOpts) -> Vec<Violation> {
    let mut out = Vec::new();
    let Some(i) = opts.panic_at else { return out };
    if r.callbacks < i {
        return out; // the schedule of this run never reached the i-th callback
    }
    let hit: Vec<&OpRec> = r
        .history
        .iter()
        .filter(|h| matches!(&h.res, Res::Panic(m) | Res::RetainPanic(_, m) if m.starts_with("injected callback panic")))
        .collect();
    if hit.len() != 1 {
        out.push(v("panic-not-propagated", format!("callback #{} panicked but {} operations reported the panic to their caller", i, hit.len())));
    }
    out
}

/* ------------------------------ C15: happens-before monitor ------------------------------ */

#[derive(Default)]
pub struct HbStats {
    pub cross_thread_reads: u64,
    pub same_thread_reads: u64,
    pub prepop_reads: u64,
    pub acquire_edges: u64,
    pub lock_edges: u64,
    pub release_stores: u64,
    pub relaxed_stores: u64,
    pub reads_of_map_made_clones: u64,
}

fn is_acquire(o: std::sync::atomic::Ordering) -> bool {
    use std::sync::atomic::Ordering::*;
    matches!(o, Acquire | AcqRel | SeqCst)
}
fn is_release(o: std::sync::atomic::Ordering) -> bool {
    use std::sync::atomic::Ordering::*;
    matches!(o, Release | AcqRel | SeqCst)
}

/// Vector-clock happens-before monitor driven by the orderings flurry passes at its seams.
///
/// The simulated execution itself is sequentially consistent; what is decided here is whether
/// the *orderings as written* order each payload initialisation before each payload read by
/// another thread (C++11/Rust model: release store / release sequence through RMWs ->
/// acquire load; lock release -> lock acquire; program order; thread start). Loads through a
/// protected seize guard are SeqCst whatever ordering flurry passes (seize 0.3.3 `protect`).
pub fn happens_before(r: &RunResult, st: &mut HbStats) -> Vec<Violation> {
    use flurry::verif::Kind;
    const N: usize = crate::sched::MAXT_CLASSIC;
    type VC = [u64; N];
    let mut out = Vec::new();
    if r.history.iter().any(|h| h.thread as usize >= N) {
        return out; // crowd programs are not C15 programs
    }
    let mut vc: [VC; N] = [[0; N]; N];
    let mut rel: std::collections::HashMap<usize, VC> = std::collections::HashMap::new();
    let mut lockrel: std::collections::HashMap<usize, VC> = std::collections::HashMap::new();
    let join = |a: &mut VC, b: &VC| {
        for i in 0..N {
            if b[i] > a[i] {
                a[i] = b[i];
            }
        }
    };
    // merge the three streams by clock (stable: accesses, then lock events, then reads at equal clocks
    // does not matter because each stream entry carries its own thread and clocks are per decision point)
    #[derive(Clone, Copy)]
    enum E<'a> {
        Acc(&'a crate::sched::AccessRec),
        Lock(&'a crate::sched::EventRec),
        Read(&'a crate::types::ReadRec),
    }
    let mut evs: Vec<(u64, u8, E<'_>)> = Vec::new();
    for a in &r.outcome.accesses {
        evs.push((a.clock, 0, E::Acc(a)));
    }
    for e in &r.outcome.events {
        if matches!(e.ev, Ev::LockAcquired | Ev::LockReleased) {
            evs.push((e.clock, 1, E::Lock(e)));
        }
    }
    for rd in &r.reads {
        evs.push((rd.clock, 2, E::Read(rd)));
    }
    // the logs are appended in execution order within each stream; a stable sort by clock keeps
    // that order and interleaves streams at equal clocks in (access, lock, read) order, which is
    // also the order in which they can occur between two decision points of one thread
    evs.sort_by_key(|x| (x.0, x.1));
    for (clock, _, e) in evs {
        match e {
            E::Acc(a) => {
                let t = a.thread as usize;
                if t >= N {
                    continue;
                }
                vc[t][t] = vc[t][t].max(clock);
                let acc = &a.a;
                if acc.collector == usize::MAX - 1 {
                    continue; // lock attempt marker
                }
                let eff_load = if acc.protected { std::sync::atomic::Ordering::SeqCst } else { acc.ord };
                match acc.kind {
                    Kind::Load => {
                        if is_acquire(eff_load) {
                            if let Some(rv) = rel.get(&acc.addr) {
                                let rv = *rv;
                                join(&mut vc[t], &rv);
                                st.acquire_edges += 1;
                            }
                        }
                    }
                    Kind::Store => {
                        if is_release(acc.ord) {
                            rel.insert(acc.addr, vc[t]);
                            st.release_stores += 1;
                        } else {
                            rel.remove(&acc.addr);
                            st.relaxed_stores += 1;
                        }
                    }
                    Kind::Swap | Kind::FetchAdd | Kind::FetchSub | Kind::Cas => {
                        if acc.kind == Kind::Cas && !acc.ok {
                            if is_acquire(acc.ord_fail) {
                                if let Some(rv) = rel.get(&acc.addr) {
                                    let rv = *rv;
                                    join(&mut vc[t], &rv);
                                }
                            }
                            continue;
                        }
                        let prev = rel.get(&acc.addr).copied();
                        if is_acquire(acc.ord) {
                            if let Some(rv) = &prev {
                                join(&mut vc[t], rv);
                                st.acquire_edges += 1;
                            }
                        }
                        if is_release(acc.ord) {
                            // an RMW continues the release sequence it reads from and heads its own
                            let mut nv = vc[t];
                            if let Some(rv) = &prev {
                                join(&mut nv, rv);
                            }
                            rel.insert(acc.addr, nv);
                            st.release_stores += 1;
                        }
                        // a relaxed RMW leaves the release sequence intact
                    }
                }
            }
            E::Lock(l) => {
                let t = l.thread as usize;
                if t >= N {
                    continue;
                }
                vc[t][t] = vc[t][t].max(clock);
                if l.ev == Ev::LockAcquired {
                    if let Some(rv) = lockrel.get(&l.a) {
                        let rv = *rv;
                        join(&mut vc[t], &rv);
                        st.lock_edges += 1;
                    }
                } else {
                    lockrel.insert(l.a, vc[t]);
                }
            }
            E::Read(rd) => {
                let t = rd.thread as usize;
                let Some(inst) = r.insts.get(rd.inst as usize) else { continue };
                if t >= N {
                    continue; // the controller reads only at quiescence, after joining every thread
                }
                vc[t][t] = vc[t][t].max(clock);
                let u = inst.created_thread as usize;
                if u >= N {
                    st.prepop_reads += 1; // created before the threads were started
                    continue;
                }
                if u == t {
                    st.same_thread_reads += 1;
                    continue;
                }
                st.cross_thread_reads += 1;
                if inst.parent != NONE {
                    st.reads_of_map_made_clones += 1;
                }
                if vc[t][u] < inst.created_clock {
                    out.push(v(
                        "unordered-read",
                        format!(
                            "thread {} read {} {} (instance {}) at clock {} but nothing orders that read after its initialisation by thread {} at clock {}: thread {}'s knowledge of thread {} only reaches clock {} (orderings as passed by flurry; protected loads counted as SeqCst)",
                            t,
                            if inst.is_key { "key" } else { "value" },
                            inst.logical,
                            rd.inst,
                            clock,
                            u,
                            inst.created_clock,
                            t,
                            u,
                            vc[t][u]
                        ),
                    ));
                    if out.len() > 3 {
                        return out;
                    }
                }
            }
        }
    }
    out
}
