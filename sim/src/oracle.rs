//! Oracles: pure functions from a recorded run to violations.

use crate::exec::*;
use crate::lin::{self, KKind, KOp, St, ANY};
use crate::program::*;
use crate::types::NONE;
use flurry::verif::Ev;
use std::collections::BTreeMap;

#[derive(Clone, Debug)]
pub struct Violation {
    /// short stable class name (used to decide whether a minimised run still fails the same way)
    pub class: String,
    pub detail: String,
}

fn v(class: &str, detail: String) -> Violation {
    Violation {
        class: class.to_string(),
        detail,
    }
}

/// value id -> key, from the program text (values are unique per write)
pub fn vid_to_key(p: &Program) -> BTreeMap<u32, u32> {
    let mut m = BTreeMap::new();
    for &k in &p.cfg.prepop {
        m.insert(PREPOP_VID + k, k);
    }
    for t in &p.threads {
        for o in t {
            match o {
                Op::Insert(k, v) | Op::TryInsert(k, v) | Op::Compute(k, _, v) => {
                    m.insert(*v, *k);
                }
                Op::Extend(kv) => {
                    for (k, v) in kv {
                        m.insert(*v, *k);
                    }
                }
                _ => {}
            }
        }
    }
    m
}

pub struct LinStats {
    pub keys_checked: usize,
    pub ops_checked: usize,
    pub states_explored: usize,
    pub max_ops_per_key: usize,
    pub skipped_keys: usize,
}

/// Per-key linearizability of the whole recorded history (C01, C08, C13, and the safety half of
/// C07), including the state observed at quiescence.
pub fn linearizability(p: &Program, r: &RunResult, stats: &mut LinStats) -> Vec<Violation> {
    let mut out = Vec::new();
    let set = p.cfg.set;
    let v2k = vid_to_key(p);
    let mut per_key: BTreeMap<u32, Vec<KOp>> = BTreeMap::new();
    let resizes_in = |a: u64, b: u64| -> usize {
        r.outcome
            .events
            .iter()
            .filter(|e| e.ev == Ev::Published && e.clock >= a && e.clock <= b)
            .count()
    };
    // iterator open stamps per thread
    let mut iter_open: BTreeMap<u8, u64> = BTreeMap::new();
    let uni = universe(p);
    for h in &r.history {
        let mut push = |k: u32, kind: KKind, inv: u64, ret: u64, optional: bool| {
            per_key.entry(k).or_default().push(KOp {
                inv,
                ret,
                optional,
                kind,
                thread: h.thread,
                idx: h.idx,
            });
        };
        if let Res::Panic(_) = h.res {
            continue;
        }
        match (&h.op, &h.res) {
            (Op::Get(k), Res::Opt(x)) => push(*k, KKind::Get(*x), h.inv, h.ret, false),
            (Op::Get(k), Res::KV(x)) | (Op::GetKV(k), Res::KV(x)) if set => push(*k, KKind::SetGet(x.map(|y| y.0)), h.inv, h.ret, false),
            (Op::Contains(k), Res::Bool(b)) => push(*k, KKind::Contains(*b), h.inv, h.ret, false),
            (Op::GetKV(k), Res::KV(x)) => push(*k, KKind::GetKV(*x), h.inv, h.ret, false),
            (Op::Insert(k, _), Res::Bool(b)) | (Op::TryInsert(k, _), Res::Bool(b)) => push(*k, KKind::SetInsert(h.new_kinst, *b), h.inv, h.ret, false),
            (Op::Insert(k, vid), Res::Opt(old)) => push(*k, KKind::Insert(h.new_kinst, *vid, *old), h.inv, h.ret, false),
            (Op::TryInsert(k, vid), Res::TryOk) => push(*k, KKind::TryInsert(h.new_kinst, *vid, Ok(())), h.inv, h.ret, false),
            (Op::TryInsert(k, vid), Res::TryErr { cur, back_ok }) => {
                if !back_ok {
                    out.push(v("refused-value-damaged", format!("t{} op{} try_insert({}) was refused but the value handed back is not the one passed in", h.thread, h.idx, k)));
                }
                push(*k, KKind::TryInsert(h.new_kinst, *vid, Err(*cur)), h.inv, h.ret, false)
            }
            (Op::Remove(k), Res::Bool(b)) | (Op::Compute(k, _, _), Res::Bool(b)) => push(*k, KKind::SetRemove(*b), h.inv, h.ret, false),
            (Op::Remove(k), Res::Opt(x)) => push(*k, KKind::Remove(*x), h.inv, h.ret, false),
            (Op::RemoveEntry(k), Res::KV(x)) if set => {
                push(*k, KKind::SetRemove(x.is_some()), h.inv, h.ret, false);
            }
            (Op::RemoveEntry(k), Res::KV(x)) => push(*k, KKind::RemoveEntry(*x), h.inv, h.ret, false),
            (Op::Compute(k, cf, vid), Res::Compute { calls, saw, saw_n, ret, ret_n, .. }) => {
                let outv = match cf {
                    CFn::Remove => None,
                    _ => Some(*vid),
                };
                if *calls > 1 {
                    out.push(v("compute-called-twice", format!("t{} op{} compute_if_present({}) ran its function {} times", h.thread, h.idx, k, calls)));
                }
                if *cf == CFn::Inc && *calls == 1 && ret.is_some() && *ret_n != *saw_n + 1 {
                    out.push(v("compute-result-mismatch", format!("t{} op{} compute_if_present({}) saw n={} but the stored result has n={}", h.thread, h.idx, k, saw_n, ret_n)));
                }
                // if the closure never ran, what it "would" have produced is irrelevant
                let eff_out = if *calls == 0 { None } else { outv };
                push(*k, KKind::Compute { calls: *calls, saw: *saw, out: eff_out, ret: *ret }, h.inv, h.ret, false)
            }
            (Op::Retain(_), Res::Retain(log)) | (Op::RetainForce(_), Res::Retain(log)) => {
                let force = matches!(h.op, Op::RetainForce(_));
                for (i, rec) in log.iter().enumerate() {
                    if rec.k == u32::MAX - 1 {
                        continue;
                    }
                    if set {
                        push(rec.k, KKind::ObserveKey(rec.kinst), h.inv, rec.clock, false);
                    } else {
                        push(rec.k, KKind::Observe(rec.vid), h.inv, rec.clock, false);
                    }
                    if !rec.keep {
                        let end = log.get(i + 1).map(|n| n.clock).unwrap_or(h.ret);
                        if set {
                            push(rec.k, KKind::ForceRemove, rec.clock, end, true);
                        } else if force {
                            push(rec.k, KKind::ForceRemove, rec.clock, end, false);
                        } else {
                            push(rec.k, KKind::CondRemove(rec.vid), rec.clock, end, false);
                        }
                    }
                }
            }
            (Op::Clear, Res::Unit) => {
                let extra = 1 + resizes_in(h.inv, h.ret);
                for &k in &uni {
                    for _ in 0..extra {
                        push(k, KKind::ForceRemove, h.inv, h.ret, true);
                    }
                }
            }
            (Op::Extend(kv), Res::Unit) => {
                for (k, vid) in kv {
                    push(*k, KKind::BlindInsert(ANY, if set { 0 } else { *vid }), h.inv, h.ret, false);
                }
            }
            (Op::IterOpen(_), _) => {
                iter_open.insert(h.thread, h.inv);
            }
            (Op::IterAll(_), Res::Items { items, .. }) | (Op::IterNext(_), Res::Items { items, .. }) => {
                let start = if matches!(h.op, Op::IterAll(_)) { h.inv } else { *iter_open.get(&h.thread).unwrap_or(&h.inv) };
                for it in items {
                    if it.k == u32::MAX - 1 || it.vid == u32::MAX - 1 {
                        continue; // invalid reference, reported by the executor
                    }
                    if it.k != NONE && (set || it.vid == NONE) {
                        push(it.k, KKind::ObserveKey(it.kinst), start, it.clock, false);
                    } else if it.k != NONE {
                        push(it.k, KKind::Observe(it.vid), start, it.clock, false);
                        push(it.k, KKind::ObserveKey(it.kinst), start, it.clock, false);
                    } else if let Some(&k) = v2k.get(&it.vid) {
                        push(k, KKind::Observe(it.vid), start, it.clock, false);
                    } else {
                        out.push(v("iterator-unknown-value", format!("t{} op{} iterator yielded value id {} that no operation ever wrote", h.thread, h.idx, it.vid)));
                    }
                }
            }
            _ => {}
        }
    }
    let init: BTreeMap<u32, St> = r.initial.iter().cloned().collect();
    let fin: BTreeMap<u32, St> = r.quiescent.lookups.iter().map(|(k, x)| (*k, x.map(|y| (y.0, y.1)))).collect();
    for &k in &uni {
        let mut ops = per_key.remove(&k).unwrap_or_default();
        if let Some(f) = fin.get(&k) {
            ops.push(KOp {
                inv: r.end_clock + 1,
                ret: r.end_clock + 2,
                optional: false,
                kind: KKind::Final(*f),
                thread: 255,
                idx: 0,
            });
        }
        if ops.len() > 120 {
            stats.skipped_keys += 1;
            continue;
        }
        stats.keys_checked += 1;
        stats.ops_checked += ops.len();
        stats.max_ops_per_key = stats.max_ops_per_key.max(ops.len());
        let i0 = init.get(&k).cloned().unwrap_or(None);
        match lin::check(i0, &ops) {
            Ok(n) => stats.states_explored += n,
            Err(f) => {
                let mut lines = Vec::new();
                let mut sorted: Vec<&KOp> = ops.iter().collect();
                sorted.sort_by_key(|o| o.inv);
                for o in sorted {
                    lines.push(format!("  [{}..{}] t{} op{} {:?}{}", o.inv, if o.ret == u64::MAX { "pending".to_string() } else { o.ret.to_string() }, o.thread, o.idx, o.kind, if o.optional { " (optional)" } else { "" }));
                }
                out.push(v(
                    "not-linearizable",
                    format!(
                        "key {}: no sequential order explains the history (initial state {:?}; longest explainable prefix has {} of {} operations, state after it {:?})\n{}",
                        k,
                        i0,
                        f.best_prefix.len(),
                        ops.len(),
                        f.state_after,
                        lines.join("\n")
                    ),
                ));
            }
        }
    }
    out
}

/// Things that must never happen in any run: internal panics, harness-visible invalid
/// references, scheduler verdicts, inconsistent quiescent reads.
pub fn basic(r: &RunResult, injected_panic: bool) -> Vec<Violation> {
    let mut out = Vec::new();
    for h in &r.history {
        if let Res::Panic(m) = &h.res {
            if injected_panic && m.starts_with("injected callback panic") {
                continue;
            }
            out.push(v("panic", format!("t{} op{} {:?} panicked: {}", h.thread, h.idx, h.op, m)));
        }
    }
    for (t, m) in &r.outcome.panics {
        out.push(v("panic", format!("thread {} panicked outside an operation: {}", t, m)));
    }
    if let Some(m) = &r.teardown_panic {
        out.push(v("panic", m.clone()));
    }
    for e in &r.quiescent.errors {
        out.push(v("quiescent-read", e.clone()));
    }
    out
}

pub fn verdicts(r: &RunResult) -> Vec<Violation> {
    use crate::sched::Verdict;
    match &r.outcome.verdict {
        None => vec![],
        Some(Verdict::Deadlock { states }) => vec![v("deadlock", format!("no thread can run: {}", states.join(" ")))],
        Some(Verdict::Livelock { clock, states }) => vec![v("livelock", format!("operations did not complete within the fair-scheduling bound (clock {}): {}", clock, states.join(" ")))],
        Some(Verdict::ForbiddenBlock { thread, what, clock }) => vec![v("reader-blocked", format!("read-only thread {} reached a {} seam at clock {}", thread, what, clock))],
        Some(Verdict::OwnStepBound { thread, steps }) => vec![v("reader-unbounded", format!("thread {} exceeded its own-step bound ({} steps)", thread, steps))],
    }
}

/// C03: references and memory.
pub fn memory(r: &RunResult) -> Vec<Violation> {
    let mut out = Vec::new();
    for e in &r.ref_errors {
        out.push(v("dangling-reference", e.clone()));
    }
    if r.alloc.double_free > 0 {
        out.push(v("double-free", format!("{} block(s) freed twice during the run", r.alloc.double_free)));
    }
    for (ptr, size, off, byte) in &r.alloc.damaged {
        let _ = ptr;
        out.push(v("write-after-free", format!("a freed block of {} bytes was written at offset {} (found byte {:#04x}) after it was released", size, off, byte)));
    }
    for e in &r.ledger_violations {
        if e.contains("freed(poisoned)") || e.contains("corrupted") {
            out.push(v("drop-of-freed-object", e.clone()));
        }
    }
    out
}

/// C04: every instance dropped exactly once; nothing dropped while an older guard could see it.
pub fn drops(r: &RunResult) -> Vec<Violation> {
    let mut out = Vec::new();
    for e in &r.ledger_violations {
        out.push(v("double-drop", e.clone()));
    }
    let mut leaked = 0usize;
    let mut first = None;
    for (i, inst) in r.insts.iter().enumerate() {
        if inst.drops == 0 {
            leaked += 1;
            if first.is_none() {
                first = Some((i, inst.clone()));
            }
        }
    }
    if leaked > 0 {
        let (i, inst) = first.unwrap();
        out.push(v(
            "leak",
            format!(
                "{} instance(s) were never dropped after the map was torn down; first: {} instance {} (logical {}, created at clock {} by t{}, cloned from {})",
                leaked,
                if inst.is_key { "key" } else { "value" },
                i,
                inst.logical,
                inst.created_clock,
                inst.created_thread,
                if inst.parent == NONE { "nothing".to_string() } else { inst.parent.to_string() }
            ),
        ));
    }
    // timing: a value displaced by operation O must not be dropped while a guard entered before
    // O's invocation is still live
    let mut displaced_by: BTreeMap<u32, (u64, u8, u16)> = BTreeMap::new();
    for h in &r.history {
        let vid = match &h.res {
            Res::Opt(Some(x)) if matches!(h.op, Op::Insert(..) | Op::Remove(..)) => Some(*x),
            Res::KV(Some((_, x))) if matches!(h.op, Op::RemoveEntry(..)) => Some(*x),
            Res::Compute { calls: 1, saw: Some(x), .. } => Some(*x),
            _ => None,
        };
        if let Some(x) = vid {
            displaced_by.entry(x).or_insert((h.inv, h.thread, h.idx));
        }
    }
    for inst in r.insts.iter().filter(|i| !i.is_key && i.drops >= 1 && i.dropped_in_run && i.parent == NONE) {
        if let Some(&(inv, t, idx)) = displaced_by.get(&inst.logical) {
            for g in &r.guards {
                if g.enter < inv && g.exit > inst.drop_clock && inst.drop_clock > 0 {
                    out.push(v(
                        "dropped-under-live-guard",
                        format!(
                            "value {} displaced by t{} op{} (invoked at clock {}) was dropped at clock {} while thread {}'s guard entered at clock {} was still live (released at {})",
                            inst.logical, t, idx, inv, inst.drop_clock, g.thread, g.enter, g.exit
                        ),
                    ));
                    break;
                }
            }
        }
    }
    out
}

/// C05: at quiescence iteration, lookups and len agree; table well formed.
pub fn quiescent_consistency(p: &Program, r: &RunResult) -> Vec<Violation> {
    let mut out = Vec::new();
    let q = &r.quiescent;
    let present: Vec<(u32, u32, u32)> = q.lookups.iter().filter_map(|(k, x)| x.map(|y| (*k, y.0, y.1))).collect();
    let mut it = q.iter.clone();
    it.sort_unstable();
    let mut pr = present.clone();
    pr.sort_unstable();
    if it != pr {
        out.push(v("iter-lookup-mismatch", format!("iteration yields {:?} (k, key instance, value) but lookups find {:?}", it, pr)));
    }
    for w in it.windows(2) {
        if w[0].0 == w[1].0 {
            out.push(v("iter-duplicate", format!("iteration yields key {} twice at quiescence", w[0].0)));
        }
    }
    let mut ks = q.keys.clone();
    ks.sort_unstable();
    let mut pk: Vec<u32> = present.iter().map(|x| x.0).collect();
    pk.sort_unstable();
    if ks != pk {
        out.push(v("keys-lookup-mismatch", format!("keys() yields {:?} but lookups find {:?}", ks, pk)));
    }
    if !p.cfg.set {
        let mut vs = q.values.clone();
        vs.sort_unstable();
        let mut pv: Vec<u32> = present.iter().map(|x| x.2).collect();
        pv.sort_unstable();
        if vs != pv {
            out.push(v("values-lookup-mismatch", format!("values() yields {:?} but lookups find {:?}", vs, pv)));
        }
    }
    if q.len != present.len() {
        out.push(v("len-mismatch", format!("len() is {} but {} keys are present", q.len, present.len())));
    }
    if q.is_empty != present.is_empty() {
        out.push(v("is-empty-mismatch", format!("is_empty() is {} but {} keys are present", q.is_empty, present.len())));
    }
    if let Some(rep) = &q.inspect {
        for e in &rep.wellformed_errors {
            out.push(v("malformed-table", e.clone()));
        }
        let mut es: Vec<(u32, u32, u32)> = rep.entries.iter().map(|e| (e.0, e.1, e.2)).collect();
        es.sort_unstable();
        if es != pr {
            out.push(v("structure-lookup-mismatch", format!("the table physically holds {:?} but lookups find {:?}", es, pr)));
        }
    }
    out
}

/// C06: tree shape at quiescence (and, when sampled during the run, at every sample).
pub fn trees(r: &RunResult) -> Vec<Violation> {
    let mut out = Vec::new();
    if let Some(rep) = &r.quiescent.inspect {
        for e in &rep.tree_errors {
            out.push(v("tree-invariant", e.clone()));
        }
    }
    out
}
