//! Per-key linearizability checker (Wing-Gong / Lowe style search with memoisation).
//!
//! A map is a product of independent per-key registers and linearizability is a local property,
//! so a history of per-key operations is linearizable iff each key's sub-history is. The state of
//! one key is `Option<(stored key instance, value id)>`. Values written are unique, so almost
//! every step of the search is forced.

use std::collections::HashSet;

pub const ANY: u32 = u32::MAX;

pub type St = Option<(u32, u32)>;

#[derive(Clone, Debug, PartialEq, Eq)]
pub enum KKind {
    Get(Option<u32>),
    Contains(bool),
    GetKV(Option<(u32, u32)>),
    /// (new key instance, new value id, returned old value id)
    Insert(u32, u32, Option<u32>),
    /// (new key instance, new value id, Err(current value id) or Ok)
    TryInsert(u32, u32, Result<(), u32>),
    Remove(Option<u32>),
    RemoveEntry(Option<(u32, u32)>),
    /// calls, saw, new value id or None for removal, returned value id
    Compute { calls: u32, saw: Option<u32>, out: Option<u32>, ret: Option<u32> },
    SetInsert(u32, bool),
    SetRemove(bool),
    SetGet(Option<u32>),
    /// the value was seen associated with the key at some instant of the interval
    Observe(u32),
    /// the key was seen present (value unknown) at some instant of the interval
    ObserveKey(u32),
    /// removes the entry iff its value is exactly this one (retain after a `false` verdict)
    CondRemove(u32),
    /// removes whatever is there (retain_force after a `false` verdict, clear)
    ForceRemove,
    /// insert whose result was not observed (extend)
    BlindInsert(u32, u32),
    /// state at quiescence
    Final(St),
}

#[derive(Clone, Debug)]
pub struct KOp {
    pub inv: u64,
    pub ret: u64,
    /// may take effect or not (pending operation of a stalled/wedged thread, optional extra
    /// sweep of a restarted clear)
    pub optional: bool,
    pub kind: KKind,
    pub thread: u8,
    pub idx: u16,
}

fn kmatch(a: u32, b: u32) -> bool {
    a == b || a == ANY || b == ANY
}

/// Applies an operation to a state; `None` if the operation's observed result is impossible here.
pub fn step(st: St, k: &KKind) -> Option<St> {
    match k {
        KKind::Get(r) => (st.map(|x| x.1) == *r).then_some(st),
        KKind::Contains(b) => (st.is_some() == *b).then_some(st),
        KKind::GetKV(r) => match (st, r) {
            (None, None) => Some(st),
            (Some((ki, v)), Some((rki, rv))) if v == *rv && kmatch(ki, *rki) => Some(st),
            _ => None,
        },
        KKind::Insert(nk, nv, r) => match (st, r) {
            (None, None) => Some(Some((*nk, *nv))),
            (Some((ki, v)), Some(rv)) if v == *rv => Some(Some((ki, *nv))),
            _ => None,
        },
        KKind::BlindInsert(nk, nv) => match st {
            None => Some(Some((*nk, *nv))),
            Some((ki, _)) => Some(Some((ki, *nv))),
        },
        KKind::TryInsert(nk, nv, r) => match (st, r) {
            (None, Ok(())) => Some(Some((*nk, *nv))),
            (Some((_, v)), Err(cur)) if v == *cur => Some(st),
            _ => None,
        },
        KKind::Remove(r) => match (st, r) {
            (None, None) => Some(None),
            (Some((_, v)), Some(rv)) if v == *rv => Some(None),
            _ => None,
        },
        KKind::RemoveEntry(r) => match (st, r) {
            (None, None) => Some(None),
            (Some((ki, v)), Some((rki, rv))) if v == *rv && kmatch(ki, *rki) => Some(None),
            _ => None,
        },
        KKind::Compute { calls, saw, out, ret } => match st {
            None => (*calls == 0 && ret.is_none() && saw.is_none()).then_some(None),
            Some((ki, v)) => {
                if *calls == 1 && *saw == Some(v) && ret == out {
                    Some(out.map(|nv| (ki, nv)))
                } else {
                    None
                }
            }
        },
        KKind::SetInsert(nk, r) => match (st, r) {
            (None, true) => Some(Some((*nk, 0))),
            (Some(_), false) => Some(st),
            _ => None,
        },
        KKind::SetRemove(r) => match (st, r) {
            (None, false) => Some(None),
            (Some(_), true) => Some(None),
            _ => None,
        },
        KKind::SetGet(r) => match (st, r) {
            (None, None) => Some(st),
            (Some((ki, _)), Some(rk)) if kmatch(ki, *rk) => Some(st),
            _ => None,
        },
        KKind::Observe(v) => matches!(st, Some((_, sv)) if sv == *v).then_some(st),
        KKind::ObserveKey(ki) => matches!(st, Some((ski, _)) if kmatch(ski, *ki)).then_some(st),
        KKind::CondRemove(v) => match st {
            Some((_, sv)) if sv == *v => Some(None),
            _ => Some(st),
        },
        KKind::ForceRemove => Some(None),
        KKind::Final(f) => match (st, f) {
            (None, None) => Some(st),
            (Some((ki, v)), Some((fki, fv))) if v == *fv && kmatch(ki, *fki) => Some(st),
            _ => None,
        },
    }
}

#[derive(Debug, Clone)]
pub struct LinFail {
    /// the longest linearised prefix found (indices into the ops slice) and the state after it
    pub best_prefix: Vec<usize>,
    pub state_after: St,
    pub explored: usize,
}

/// Is there a linearization of `ops` starting from `init`? `ops` may be in any order.
/// At most 127 operations per key.
pub fn check(init: St, ops: &[KOp]) -> Result<usize, LinFail> {
    let n = ops.len();
    assert!(n <= 127, "too many operations on one key for the checker");
    if n == 0 {
        return Ok(0);
    }
    let full: u128 = if n == 128 { u128::MAX } else { (1u128 << n) - 1 };
    let mut memo: HashSet<(u128, St)> = HashSet::new();
    // DFS stack: (done mask, state, path)
    let mut stack: Vec<(u128, St, Vec<usize>)> = vec![(0, init, Vec::new())];
    let mut best: (Vec<usize>, St) = (Vec::new(), init);
    let mut explored = 0usize;
    while let Some((done, st, path)) = stack.pop() {
        if done == full {
            return Ok(explored);
        }
        if !memo.insert((done, st)) {
            continue;
        }
        explored += 1;
        if explored > 2_000_000 {
            // give up conservatively: never report what was not decided
            return Ok(explored);
        }
        if path.len() > best.0.len() {
            best = (path.clone(), st);
        }
        // the earliest return among undone operations bounds what may go next (optional ones
        // must be decided - applied or skipped - before anything invoked after their return)
        let mut min_ret = u64::MAX;
        for (i, o) in ops.iter().enumerate() {
            if done & (1u128 << i) == 0 && o.ret < min_ret {
                min_ret = o.ret;
            }
        }
        for (i, o) in ops.iter().enumerate() {
            if done & (1u128 << i) != 0 {
                continue;
            }
            if o.inv > min_ret {
                continue;
            }
            if let Some(ns) = step(st, &o.kind) {
                let mut p = path.clone();
                p.push(i);
                stack.push((done | (1u128 << i), ns, p));
            }
            if o.optional {
                // the operation may also never take effect
                stack.push((done | (1u128 << i), st, path.clone()));
            }
        }
    }
    Err(LinFail {
        best_prefix: best.0,
        state_after: best.1,
        explored,
    })
}

/// All states the key can be in after some linearization of `ops` (bounded search; `None` when
/// the bound is hit or the history is not linearizable).
pub fn possible_states(init: St, ops: &[KOp]) -> Option<Vec<St>> {
    let n = ops.len();
    if n > 100 {
        return None;
    }
    if n == 0 {
        return Some(vec![init]);
    }
    let full: u128 = (1u128 << n) - 1;
    let mut memo: HashSet<(u128, St)> = HashSet::new();
    let mut stack: Vec<(u128, St)> = vec![(0, init)];
    let mut finals: Vec<St> = Vec::new();
    let mut explored = 0usize;
    while let Some((done, st)) = stack.pop() {
        if !memo.insert((done, st)) {
            continue;
        }
        explored += 1;
        if explored > 200_000 {
            return None;
        }
        if done == full {
            if !finals.contains(&st) {
                finals.push(st);
            }
            continue;
        }
        let mut min_ret = u64::MAX;
        for (i, o) in ops.iter().enumerate() {
            if done & (1u128 << i) == 0 && o.ret < min_ret {
                min_ret = o.ret;
            }
        }
        for (i, o) in ops.iter().enumerate() {
            if done & (1u128 << i) != 0 || o.inv > min_ret {
                continue;
            }
            if let Some(ns) = step(st, &o.kind) {
                stack.push((done | (1u128 << i), ns));
            }
            if o.optional {
                stack.push((done | (1u128 << i), st));
            }
        }
    }
    if finals.is_empty() {
        None
    } else {
        Some(finals)
    }
}

#[cfg(test)]
mod tests {
    use super::*;
    fn op(inv: u64, ret: u64, kind: KKind) -> KOp {
        KOp { inv, ret, optional: false, kind, thread: 0, idx: 0 }
    }
    #[test]
    fn simple() {
        let ops = vec![
            op(1, 2, KKind::Insert(1, 10, None)),
            op(3, 4, KKind::Get(Some(10))),
            op(5, 6, KKind::Remove(Some(10))),
            op(7, 8, KKind::Get(None)),
        ];
        assert!(check(None, &ops).is_ok());
        let bad = vec![op(1, 2, KKind::Insert(1, 10, None)), op(3, 4, KKind::Get(None))];
        assert!(check(None, &bad).is_err());
        // concurrent: get overlapping insert may see either
        let c = vec![op(1, 5, KKind::Insert(1, 10, None)), op(2, 3, KKind::Get(None))];
        assert!(check(None, &c).is_ok());
        // lost update: two inserts both returning None
        let l = vec![op(1, 5, KKind::Insert(1, 10, None)), op(2, 6, KKind::Insert(2, 11, None))];
        assert!(check(None, &l).is_err());
    }
}
