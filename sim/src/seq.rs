//! C02: single-client behaviour against a reference map, over the whole public surface.
//!
//! There is no schedule in this property (said plainly in DESIGN.md): what is explored is the
//! input space - operation sequences x hash function x initial capacity x API facade x collector
//! batch size. It runs inside the simulator's one-thread configuration (so the seams, the
//! reclamation timing and the crash capture are the same as everywhere else) and validates the
//! sequential specification that the concurrent oracles rely on.

use crate::rng::Rng;
use crate::sched::{self, RunSetup, Strategy};
use crate::types::{HashKind, SimBuild, DEFAULT_HASH};
use serde_json::{json, Value};
use std::collections::{BTreeMap, BTreeSet};
use std::hash::{Hash, Hasher};

/// Copy key whose identity (`tag`) is not part of Eq/Hash/Ord: lets the model tell WHICH equal
/// key object the map kept.
#[derive(Clone, Copy)]
pub struct PK {
    pub k: u32,
    pub tag: u32,
}
impl Hash for PK {
    fn hash<H: Hasher>(&self, s: &mut H) {
        s.write_u32(self.k)
    }
}
impl PartialEq for PK {
    fn eq(&self, o: &PK) -> bool {
        self.k == o.k
    }
}
impl Eq for PK {}
impl PartialOrd for PK {
    fn partial_cmp(&self, o: &PK) -> Option<std::cmp::Ordering> {
        Some(self.cmp(o))
    }
}
impl Ord for PK {
    fn cmp(&self, o: &PK) -> std::cmp::Ordering {
        self.k.cmp(&o.k)
    }
}
impl std::fmt::Debug for PK {
    fn fmt(&self, f: &mut std::fmt::Formatter<'_>) -> std::fmt::Result {
        write!(f, "k{}", self.k)
    }
}

type PMap = flurry::HashMap<PK, u64, SimBuild>;
type PSet = flurry::HashSet<PK, SimBuild>;

#[derive(Clone, Debug, PartialEq)]
pub enum SOp {
    Insert(u32, u64),
    TryInsert(u32, u64),
    Get(u32),
    GetKV(u32),
    Contains(u32),
    Remove(u32),
    RemoveEntry(u32),
    /// 0 replace with v, 1 increment, 2 remove
    Compute(u32, u8, u64),
    /// keep entries with k % m != r (retain) / value parity
    Retain(u32, u32),
    RetainForce(u32, u32),
    RetainVal(u64),
    Clear,
    Reserve(u32),
    ExtendOwned(Vec<(u32, u64)>),
    ExtendRef(Vec<(u32, u64)>),
    /// replace the collection by one collected from these pairs; form 0 owned, 1 (&K,&V), 2 &(K,V); with size hint or not
    Collect(Vec<(u32, u64)>, u8, bool),
    /// replace the collection by its clone
    CloneSwap,
    /// compare (all four forms) with a map built from the model, optionally perturbed: 0 same, 1 one value differs, 2 one key more, 3 one key fewer
    EqCheck(u8),
    Iterate,
    Index(u32),
    Debug,
    Len,
    /// set relations against a second set built from these keys
    SetRel(Vec<u32>),
}

impl SOp {
    pub fn to_json(&self) -> Value {
        let pairs = |kv: &Vec<(u32, u64)>| kv.iter().map(|(k, v)| json!([k, v])).collect::<Vec<_>>();
        match self {
            SOp::Insert(k, v) => json!(["insert", k, v]),
            SOp::TryInsert(k, v) => json!(["try_insert", k, v]),
            SOp::Get(k) => json!(["get", k]),
            SOp::GetKV(k) => json!(["get_key_value", k]),
            SOp::Contains(k) => json!(["contains_key", k]),
            SOp::Remove(k) => json!(["remove", k]),
            SOp::RemoveEntry(k) => json!(["remove_entry", k]),
            SOp::Compute(k, c, v) => json!(["compute_if_present", k, c, v]),
            SOp::Retain(m, r) => json!(["retain", m, r]),
            SOp::RetainForce(m, r) => json!(["retain_force", m, r]),
            SOp::RetainVal(p) => json!(["retain_val", p]),
            SOp::Clear => json!(["clear"]),
            SOp::Reserve(n) => json!(["reserve", n]),
            SOp::ExtendOwned(kv) => json!(["extend", pairs(kv)]),
            SOp::ExtendRef(kv) => json!(["extend_ref", pairs(kv)]),
            SOp::Collect(kv, f, h) => json!(["collect", pairs(kv), f, h]),
            SOp::CloneSwap => json!(["clone"]),
            SOp::EqCheck(p) => json!(["eq", p]),
            SOp::Iterate => json!(["iterate"]),
            SOp::Index(k) => json!(["index", k]),
            SOp::Debug => json!(["debug"]),
            SOp::Len => json!(["len"]),
            SOp::SetRel(ks) => json!(["set_relations", ks]),
        }
    }
    pub fn from_json(v: &Value) -> Option<SOp> {
        let a = v.as_array()?;
        let u = |i: usize| -> Option<u64> { a.get(i)?.as_u64() };
        let pairs = |i: usize| -> Option<Vec<(u32, u64)>> {
            a.get(i)?.as_array()?.iter().map(|p| Some((p.get(0)?.as_u64()? as u32, p.get(1)?.as_u64()?))).collect()
        };
        Some(match a.first()?.as_str()? {
            "insert" => SOp::Insert(u(1)? as u32, u(2)?),
            "try_insert" => SOp::TryInsert(u(1)? as u32, u(2)?),
            "get" => SOp::Get(u(1)? as u32),
            "get_key_value" => SOp::GetKV(u(1)? as u32),
            "contains_key" => SOp::Contains(u(1)? as u32),
            "remove" => SOp::Remove(u(1)? as u32),
            "remove_entry" => SOp::RemoveEntry(u(1)? as u32),
            "compute_if_present" => SOp::Compute(u(1)? as u32, u(2)? as u8, u(3)?),
            "retain" => SOp::Retain(u(1)? as u32, u(2)? as u32),
            "retain_force" => SOp::RetainForce(u(1)? as u32, u(2)? as u32),
            "retain_val" => SOp::RetainVal(u(1)?),
            "clear" => SOp::Clear,
            "reserve" => SOp::Reserve(u(1)? as u32),
            "extend" => SOp::ExtendOwned(pairs(1)?),
            "extend_ref" => SOp::ExtendRef(pairs(1)?),
            "collect" => SOp::Collect(pairs(1)?, u(2)? as u8, a.get(3)?.as_bool()?),
            "clone" => SOp::CloneSwap,
            "eq" => SOp::EqCheck(u(1)? as u8),
            "iterate" => SOp::Iterate,
            "index" => SOp::Index(u(1)? as u32),
            "debug" => SOp::Debug,
            "len" => SOp::Len,
            "set_relations" => SOp::SetRel(a.get(1)?.as_array()?.iter().map(|x| Some(x.as_u64()? as u32)).collect::<Option<Vec<_>>>()?),
            _ => return None,
        })
    }
}

#[derive(Clone, Debug, PartialEq)]
pub struct SeqProgram {
    pub hash: HashKind,
    pub capacity: u32,
    pub batch: u32,
    pub set: bool,
    pub ops: Vec<SOp>,
    /// per op: use the pinned-reference facade instead of passing a guard
    pub pinned: Vec<bool>,
}

impl SeqProgram {
    pub fn to_json(&self) -> Value {
        json!({"hash": self.hash.name(), "capacity": self.capacity, "batch": self.batch, "set": self.set,
               "ops": self.ops.iter().map(|o| o.to_json()).collect::<Vec<_>>(), "pinned": self.pinned})
    }
    pub fn from_json(v: &Value) -> Option<SeqProgram> {
        Some(SeqProgram {
            hash: HashKind::parse(v.get("hash")?.as_str()?)?,
            capacity: v.get("capacity")?.as_u64()? as u32,
            batch: v.get("batch")?.as_u64()? as u32,
            set: v.get("set")?.as_bool()?,
            ops: v.get("ops")?.as_array()?.iter().map(SOp::from_json).collect::<Option<Vec<_>>>()?,
            pinned: v.get("pinned")?.as_array()?.iter().map(|x| x.as_bool().unwrap_or(false)).collect(),
        })
    }
}

pub fn gen(rng: &mut Rng, thorough: bool) -> SeqProgram {
    let hash = match rng.below(8) {
        0 => HashKind::Uniform(rng.below(1000)),
        1 => HashKind::Const,
        2 => HashKind::SameBin,
        3 => HashKind::HighBits,
        4 => HashKind::Identity,
        5 => HashKind::Mod(rng.range(1, 4) as u32),
        6 => HashKind::Split(rng.range(1, 3) as u32),
        _ => HashKind::Mixed(rng.range(2, 4) as u32),
    };
    let set = rng.chance(1, 4);
    let capacity = *rng.pick(&[0u32, 0, 1, 2, 3, 7, 10, 16, 20, 33, 42, 43, 64, 70]);
    let batch = *rng.pick(&[1u32, 2, 120]);
    let nkeys = rng.range(1, if thorough { 40 } else { 24 }) as u32;
    let nops = rng.range(1, if thorough { 90 } else { 60 }) as usize;
    let mut ops = Vec::new();
    let mut next_v = 1u64;
    let pairs = |rng: &mut Rng, next_v: &mut u64, n: u64| -> Vec<(u32, u64)> {
        (0..n)
            .map(|_| {
                *next_v += 1;
                (rng.below(nkeys as u64 + 4) as u32, *next_v)
            })
            .collect()
    };
    // insert-heavy warm-up in half of the runs so that trees / resizes are reached
    let warm = if rng.chance(1, 2) { rng.below(nkeys as u64 + 1) } else { 0 };
    for i in 0..warm {
        next_v += 1;
        ops.push(SOp::Insert(i as u32, next_v));
    }
    for _ in 0..nops {
        let k = rng.below(nkeys as u64 + 2) as u32;
        let op = match rng.below(34) {
            0..=5 => {
                next_v += 1;
                SOp::Insert(k, next_v)
            }
            6..=7 => {
                next_v += 1;
                SOp::TryInsert(k, next_v)
            }
            8..=9 => SOp::Get(k),
            10 => SOp::GetKV(k),
            11 => SOp::Contains(k),
            12..=15 => SOp::Remove(k),
            16 => SOp::RemoveEntry(k),
            17..=19 => {
                next_v += 1;
                SOp::Compute(k, rng.below(3) as u8, next_v)
            }
            20 => SOp::Retain(rng.range(2, 4) as u32, rng.below(2) as u32),
            21 => SOp::RetainForce(rng.range(2, 4) as u32, rng.below(2) as u32),
            22 => SOp::RetainVal(rng.below(2)),
            23 => {
                if rng.chance(1, 3) {
                    SOp::Clear
                } else {
                    SOp::Len
                }
            }
            24 => SOp::Reserve(*rng.pick(&[0u32, 1, 5, 12, 13, 40, 100])),
            25 => {
                let n = rng.range(0, 12);
                SOp::ExtendOwned(pairs(rng, &mut next_v, n))
            }
            26 => {
                let n = rng.range(0, 12);
                SOp::ExtendRef(pairs(rng, &mut next_v, n))
            }
            27 => {
                let n = *rng.pick(&[0u64, 1, 2, 9, 13, 20, 30]);
                SOp::Collect(pairs(rng, &mut next_v, n), rng.below(3) as u8, rng.chance(1, 2))
            }
            28 => SOp::CloneSwap,
            29 => SOp::EqCheck(rng.below(4) as u8),
            30 => SOp::Iterate,
            31 => SOp::Index(k),
            32 => SOp::Debug,
            _ => SOp::SetRel((0..rng.range(0, 8)).map(|_| rng.below(nkeys as u64 + 4) as u32).collect()),
        };
        ops.push(op);
    }
    let pinned = ops.iter().map(|_| rng.chance(1, 2)).collect();
    SeqProgram { hash, capacity, batch, set, ops, pinned }
}

pub struct SeqOutcome {
    /// (step index, description)
    pub failure: Option<(usize, String)>,
    pub steps_done: usize,
    pub max_table: usize,
    pub clock: u64,
}

fn keep(m: u32, r: u32, k: u32) -> bool {
    k % m.max(1) != r
}

fn tag_of(step: usize, j: usize) -> u32 {
    (step * 1000 + j + 1) as u32
}

struct MapRun {
    map: PMap,
    model: BTreeMap<u32, (u32, u64)>,
}

fn new_map(p: &SeqProgram) -> PMap {
    DEFAULT_HASH.with(|c| c.set(p.hash));
    PMap::with_capacity_and_hasher(p.capacity as usize, SimBuild(p.hash)).with_collector(seize::Collector::new().batch_size(p.batch.max(1) as usize))
}

fn check_contents(run: &MapRun, step: usize, universe: u32) -> Result<(), String> {
    let g = run.map.guard();
    let mut it: Vec<(u32, u32, u64)> = run.map.iter(&g).map(|(k, v)| (k.k, k.tag, *v)).collect();
    it.sort_unstable();
    let want: Vec<(u32, u32, u64)> = run.model.iter().map(|(k, (t, v))| (*k, *t, *v)).collect();
    if it != want {
        return Err(format!("after step {}: contents (key, kept key object, value) are {:?}, the reference map holds {:?}", step, it, want));
    }
    if run.map.len() != run.model.len() || run.map.is_empty() != run.model.is_empty() {
        return Err(format!("after step {}: len() = {} / is_empty() = {}, reference has {} entries", step, run.map.len(), run.map.is_empty(), run.model.len()));
    }
    for k in 0..universe {
        let got = run.map.get(&PK { k, tag: 0 }, &g).copied();
        let want = run.model.get(&k).map(|x| x.1);
        if got != want {
            return Err(format!("after step {}: get({}) = {:?}, reference says {:?}", step, k, got, want));
        }
    }
    Ok(())
}

fn run_map(p: &SeqProgram) -> (Option<(usize, String)>, usize, usize) {
    let mut run = MapRun { map: new_map(p), model: BTreeMap::new() };
    let universe = 48u32;
    let mut max_table = 0usize;
    for (i, op) in p.ops.iter().enumerate() {
        let pinned = p.pinned.get(i).copied().unwrap_or(false);
        let r: Result<(), String> = (|| {
            let m = &run.map;
            let g = m.guard();
            let mk = |k: u32, j: usize| PK { k, tag: tag_of(i, j) };
            macro_rules! expect {
                ($got:expr, $want:expr, $what:expr) => {{
                    let got = $got;
                    let want = $want;
                    if got != want {
                        return Err(format!("step {} {:?}: {} returned {:?}, the reference map returns {:?}", i, op, $what, got, want));
                    }
                }};
            }
            match op {
                SOp::Insert(k, v) => {
                    let got = if pinned { m.pin().insert(mk(*k, 0), *v).copied() } else { m.insert(mk(*k, 0), *v, &g).copied() };
                    let want = match run.model.get_mut(k) {
                        Some(e) => {
                            let old = e.1;
                            e.1 = *v;
                            Some(old)
                        }
                        None => {
                            run.model.insert(*k, (tag_of(i, 0), *v));
                            None
                        }
                    };
                    expect!(got, want, "insert");
                }
                SOp::TryInsert(k, v) => {
                    let got: Result<u64, (u64, u64)> = if pinned {
                        m.pin().try_insert(mk(*k, 0), *v).map(|x| *x).map_err(|e| (*e.current, e.not_inserted))
                    } else {
                        m.try_insert(mk(*k, 0), *v, &g).map(|x| *x).map_err(|e| (*e.current, e.not_inserted))
                    };
                    let want = match run.model.get(k) {
                        Some(e) => Err((e.1, *v)),
                        None => {
                            run.model.insert(*k, (tag_of(i, 0), *v));
                            Ok(*v)
                        }
                    };
                    expect!(got, want, "try_insert");
                }
                SOp::Get(k) => {
                    let got = if pinned { m.pin().get(&mk(*k, 0)).copied() } else { m.get(&mk(*k, 0), &g).copied() };
                    expect!(got, run.model.get(k).map(|x| x.1), "get");
                }
                SOp::GetKV(k) => {
                    let got = if pinned { m.pin().get_key_value(&mk(*k, 0)).map(|(a, b)| (a.tag, *b)) } else { m.get_key_value(&mk(*k, 0), &g).map(|(a, b)| (a.tag, *b)) };
                    expect!(got, run.model.get(k).copied(), "get_key_value (kept key object, value)");
                }
                SOp::Contains(k) => {
                    let got = if pinned { m.pin().contains_key(&mk(*k, 0)) } else { m.contains_key(&mk(*k, 0), &g) };
                    expect!(got, run.model.contains_key(k), "contains_key");
                }
                SOp::Remove(k) => {
                    let got = if pinned { m.pin().remove(&mk(*k, 0)).copied() } else { m.remove(&mk(*k, 0), &g).copied() };
                    expect!(got, run.model.remove(k).map(|x| x.1), "remove");
                }
                SOp::RemoveEntry(k) => {
                    let got = if pinned { m.pin().remove_entry(&mk(*k, 0)).map(|(a, b)| (a.tag, *b)) } else { m.remove_entry(&mk(*k, 0), &g).map(|(a, b)| (a.tag, *b)) };
                    expect!(got, run.model.remove(k), "remove_entry (kept key object, value)");
                }
                SOp::Compute(k, c, v) => {
                    let mut calls = 0;
                    let mut saw = None;
                    let f = |kk: &PK, old: &u64| {
                        calls += 1;
                        saw = Some((kk.k, *old));
                        match c {
                            0 => Some(*v),
                            1 => Some(*old + 1),
                            _ => None,
                        }
                    };
                    let got = if pinned { m.pin().compute_if_present(&mk(*k, 0), f).copied() } else { m.compute_if_present(&mk(*k, 0), f, &g).copied() };
                    let want = match run.model.get(k).copied() {
                        None => {
                            if calls != 0 {
                                return Err(format!("step {} {:?}: the function ran {} times for an absent key", i, op, calls));
                            }
                            None
                        }
                        Some((t, old)) => {
                            if calls != 1 || saw != Some((*k, old)) {
                                return Err(format!("step {} {:?}: the function ran {} times and saw {:?}; expected once with ({}, {})", i, op, calls, saw, k, old));
                            }
                            match c {
                                0 => {
                                    run.model.insert(*k, (t, *v));
                                    Some(*v)
                                }
                                1 => {
                                    run.model.insert(*k, (t, old + 1));
                                    Some(old + 1)
                                }
                                _ => {
                                    run.model.remove(k);
                                    None
                                }
                            }
                        }
                    };
                    expect!(got, want, "compute_if_present");
                }
                SOp::Retain(mm, r) | SOp::RetainForce(mm, r) => {
                    let mut seen: Vec<(u32, u64)> = Vec::new();
                    let f = |kk: &PK, v: &u64| {
                        seen.push((kk.k, *v));
                        keep(*mm, *r, kk.k)
                    };
                    match (matches!(op, SOp::RetainForce(..)), pinned) {
                        (false, false) => m.retain(f, &g),
                        (false, true) => m.pin().retain(f),
                        (true, false) => m.retain_force(f, &g),
                        (true, true) => m.pin().retain_force(f),
                    }
                    seen.sort_unstable();
                    let want_seen: Vec<(u32, u64)> = run.model.iter().map(|(k, e)| (*k, e.1)).collect();
                    expect!(seen, want_seen, "retain (pairs shown to the predicate)");
                    run.model.retain(|k, _| keep(*mm, *r, *k));
                }
                SOp::RetainVal(par) => {
                    let f = |_: &PK, v: &u64| *v % 2 == *par;
                    if pinned {
                        m.pin().retain(f)
                    } else {
                        m.retain(f, &g)
                    }
                    run.model.retain(|_, e| e.1 % 2 == *par);
                }
                SOp::Clear => {
                    if pinned {
                        m.pin().clear()
                    } else {
                        m.clear(&g)
                    }
                    run.model.clear();
                }
                SOp::Reserve(n) => {
                    if pinned {
                        m.pin().reserve(*n as usize)
                    } else {
                        m.reserve(*n as usize, &g)
                    }
                }
                SOp::ExtendOwned(kv) => {
                    let mut mm: &PMap = m;
                    mm.extend(kv.iter().enumerate().map(|(j, (k, v))| (mk(*k, j), *v)).collect::<Vec<_>>());
                    for (j, (k, v)) in kv.iter().enumerate() {
                        match run.model.get_mut(k) {
                            Some(e) => e.1 = *v,
                            None => {
                                run.model.insert(*k, (tag_of(i, j), *v));
                            }
                        }
                    }
                }
                SOp::ExtendRef(kv) => {
                    let owned: Vec<(PK, u64)> = kv.iter().enumerate().map(|(j, (k, v))| (mk(*k, j), *v)).collect();
                    let mut mm: &PMap = m;
                    mm.extend(owned.iter().map(|(k, v)| (k, v)));
                    for (j, (k, v)) in kv.iter().enumerate() {
                        match run.model.get_mut(k) {
                            Some(e) => e.1 = *v,
                            None => {
                                run.model.insert(*k, (tag_of(i, j), *v));
                            }
                        }
                    }
                }
                SOp::Iterate => {
                    let mut a: Vec<(u32, u64)> = if pinned { m.pin().iter().map(|(k, v)| (k.k, *v)).collect() } else { m.iter(&g).map(|(k, v)| (k.k, *v)).collect() };
                    a.sort_unstable();
                    let want: Vec<(u32, u64)> = run.model.iter().map(|(k, e)| (*k, e.1)).collect();
                    expect!(a, want.clone(), "iter");
                    let mut ks: Vec<u32> = if pinned { m.pin().keys().map(|k| k.k).collect() } else { m.keys(&g).map(|k| k.k).collect() };
                    ks.sort_unstable();
                    expect!(ks, want.iter().map(|x| x.0).collect::<Vec<_>>(), "keys");
                    let mut vs: Vec<u64> = if pinned { m.pin().values().copied().collect() } else { m.values(&g).copied().collect() };
                    vs.sort_unstable();
                    let mut wv: Vec<u64> = want.iter().map(|x| x.1).collect();
                    wv.sort_unstable();
                    expect!(vs, wv, "values");
                    let r = m.pin();
                    let mut b: Vec<(u32, u64)> = (&r).into_iter().map(|(k, v)| (k.k, *v)).collect();
                    b.sort_unstable();
                    expect!(b, want, "IntoIterator for &HashMapRef");
                }
                SOp::Index(k) => {
                    let r = m.pin();
                    let got = std::panic::catch_unwind(std::panic::AssertUnwindSafe(|| r[&mk(*k, 0)]));
                    match (got, run.model.get(k)) {
                        (Ok(v), Some(e)) if v == e.1 => {}
                        (Err(_), None) => {}
                        (g2, w) => return Err(format!("step {} {:?}: indexing gave {:?}, the reference map holds {:?}", i, op, g2.ok(), w)),
                    }
                }
                SOp::Debug => {
                    let s = if pinned { format!("{:?}", m.pin()) } else { format!("{:?}", m) };
                    let inner = s.trim().strip_prefix('{').and_then(|x| x.strip_suffix('}')).ok_or_else(|| format!("step {}: Debug output {:?} is not a map rendering", i, s))?;
                    let mut got: Vec<String> = inner.split(", ").filter(|x| !x.is_empty()).map(|x| x.to_string()).collect();
                    got.sort();
                    let mut want: Vec<String> = run.model.iter().map(|(k, e)| format!("k{}: {}", k, e.1)).collect();
                    want.sort();
                    expect!(got, want, "Debug");
                }
                SOp::Len => {
                    expect!((m.len(), m.is_empty(), m.pin().len(), m.pin().is_empty()), (run.model.len(), run.model.is_empty(), run.model.len(), run.model.is_empty()), "len/is_empty");
                }
                SOp::EqCheck(perturb) => {
                    let mut other_model: BTreeMap<u32, u64> = run.model.iter().map(|(k, e)| (*k, e.1)).collect();
                    match perturb {
                        1 => {
                            if let Some((_, v)) = other_model.iter_mut().next() {
                                *v += 1_000_000;
                            }
                        }
                        2 => {
                            other_model.insert(9_999, 1);
                        }
                        3 => {
                            let k = other_model.keys().next().copied();
                            if let Some(k) = k {
                                other_model.remove(&k);
                            }
                        }
                        _ => {}
                    }
                    let o = PMap::with_capacity_and_hasher(0, SimBuild(p.hash));
                    {
                        let og = o.guard();
                        for (k, v) in other_model.iter().rev() {
                            o.insert(PK { k: *k, tag: 7 }, *v, &og);
                        }
                    }
                    let mine: BTreeMap<u32, u64> = run.model.iter().map(|(k, e)| (*k, e.1)).collect();
                    let want = mine == other_model;
                    let og = o.guard();
                    let got = (*m == o, o == *m, m.pin() == o.pin(), m.with_guard(&g) == o, *m == o.with_guard(&og));
                    expect!(got, (want, want, want, want, want), "== (map==map, reversed, ref==ref, ref==map, map==ref)");
                }
                SOp::CloneSwap | SOp::Collect(..) | SOp::SetRel(..) => {}
            }
            Ok(())
        })();
        // operations that replace the collection need `&mut run`
        let r = match (r, op) {
            (Err(e), _) => Err(e),
            (Ok(()), _) => Ok(()),
        };
        let r = if let SOp::CloneSwap = op {
            let c = run.map.clone();
            run.map = c;
            Ok(())
        } else if let SOp::Collect(kv, form, hint) = op {
            DEFAULT_HASH.with(|c| c.set(p.hash));
            let owned: Vec<(PK, u64)> = kv.iter().enumerate().map(|(j, (k, v))| (PK { k: *k, tag: tag_of(i, j) }, *v)).collect();
            let newmap: PMap = match (form, hint) {
                (0, true) => owned.iter().copied().collect(),
                (0, false) => owned.iter().copied().filter(|_| true).collect(),
                (1, true) => owned.iter().map(|(k, v)| (k, v)).collect(),
                (1, false) => owned.iter().map(|(k, v)| (k, v)).filter(|_| true).collect(),
                (_, true) => owned.iter().collect(),
                (_, false) => owned.iter().filter(|_| true).collect(),
            };
            run.map = newmap;
            run.model.clear();
            for (j, (k, v)) in kv.iter().enumerate() {
                match run.model.get_mut(k) {
                    Some(e) => e.1 = *v,
                    None => {
                        run.model.insert(*k, (tag_of(i, j), *v));
                    }
                }
            }
            Ok(())
        } else {
            r
        };
        if let Err(e) = r {
            return (Some((i, e)), i, max_table);
        }
        if let Err(e) = check_contents(&run, i, universe) {
            return (Some((i, e)), i, max_table);
        }
        max_table = max_table.max(run.map.verif_table_len());
    }
    (None, p.ops.len(), max_table)
}

fn run_set(p: &SeqProgram) -> (Option<(usize, String)>, usize, usize) {
    DEFAULT_HASH.with(|c| c.set(p.hash));
    let mut set: PSet = PSet::with_capacity_and_hasher(p.capacity as usize, SimBuild(p.hash));
    let mut model: BTreeMap<u32, u32> = BTreeMap::new(); // k -> kept tag
    let mut max_table = 0usize;
    for (i, op) in p.ops.iter().enumerate() {
        let pinned = p.pinned.get(i).copied().unwrap_or(false);
        let mut replace: Option<PSet> = None;
        let r: Result<(), String> = (|| {
            let s = &set;
            let g = s.guard();
            let mk = |k: u32, j: usize| PK { k, tag: tag_of(i, j) };
            macro_rules! expect {
                ($got:expr, $want:expr, $what:expr) => {{
                    let got = $got;
                    let want = $want;
                    if got != want {
                        return Err(format!("step {} {:?} (set): {} returned {:?}, the reference set returns {:?}", i, op, $what, got, want));
                    }
                }};
            }
            match op {
                SOp::Insert(k, _) | SOp::TryInsert(k, _) => {
                    let got = if pinned { s.pin().insert(mk(*k, 0)) } else { s.insert(mk(*k, 0), &g) };
                    let want = !model.contains_key(k);
                    if want {
                        model.insert(*k, tag_of(i, 0));
                    }
                    expect!(got, want, "insert");
                }
                SOp::Get(k) | SOp::GetKV(k) => {
                    let got = if pinned { s.pin().get(&mk(*k, 0)).map(|x| x.tag) } else { s.get(&mk(*k, 0), &g).map(|x| x.tag) };
                    expect!(got, model.get(k).copied(), "get (kept key object)");
                }
                SOp::Contains(k) | SOp::Index(k) => {
                    let got = if pinned { s.pin().contains(&mk(*k, 0)) } else { s.contains(&mk(*k, 0), &g) };
                    expect!(got, model.contains_key(k), "contains");
                }
                SOp::Remove(k) | SOp::Compute(k, _, _) => {
                    let got = if pinned { s.pin().remove(&mk(*k, 0)) } else { s.remove(&mk(*k, 0), &g) };
                    expect!(got, model.remove(k).is_some(), "remove");
                }
                SOp::RemoveEntry(k) => {
                    let got = if pinned { s.pin().take(&mk(*k, 0)).map(|x| x.tag) } else { s.take(&mk(*k, 0), &g).map(|x| x.tag) };
                    expect!(got, model.remove(k), "take (kept key object)");
                }
                SOp::Retain(mm, r) | SOp::RetainForce(mm, r) => {
                    let f = |kk: &PK| keep(*mm, *r, kk.k);
                    if pinned {
                        s.pin().retain(f)
                    } else {
                        s.retain(f, &g)
                    }
                    model.retain(|k, _| keep(*mm, *r, *k));
                }
                SOp::RetainVal(_) | SOp::Len => {
                    expect!((s.len(), s.is_empty(), s.pin().len(), s.pin().is_empty()), (model.len(), model.is_empty(), model.len(), model.is_empty()), "len/is_empty");
                }
                SOp::Clear => {
                    if pinned {
                        s.pin().clear()
                    } else {
                        s.clear(&g)
                    }
                    model.clear();
                }
                SOp::Reserve(n) => {
                    if pinned {
                        s.pin().reserve(*n as usize)
                    } else {
                        s.reserve(*n as usize, &g)
                    }
                }
                SOp::ExtendOwned(kv) => {
                    let mut ss: &PSet = s;
                    ss.extend(kv.iter().enumerate().map(|(j, (k, _))| mk(*k, j)).collect::<Vec<_>>());
                    for (j, (k, _)) in kv.iter().enumerate() {
                        model.entry(*k).or_insert(tag_of(i, j));
                    }
                }
                SOp::ExtendRef(kv) => {
                    let owned: Vec<PK> = kv.iter().enumerate().map(|(j, (k, _))| mk(*k, j)).collect();
                    let mut ss: &PSet = s;
                    ss.extend(owned.iter());
                    for (j, (k, _)) in kv.iter().enumerate() {
                        model.entry(*k).or_insert(tag_of(i, j));
                    }
                }
                SOp::Collect(kv, form, hint) => {
                    let owned: Vec<PK> = kv.iter().enumerate().map(|(j, (k, _))| mk(*k, j)).collect();
                    let ns: PSet = match (form % 2, hint) {
                        (0, true) => owned.iter().copied().collect(),
                        (0, false) => owned.iter().copied().filter(|_| true).collect(),
                        (_, true) => owned.iter().collect(),
                        (_, false) => owned.iter().filter(|_| true).collect(),
                    };
                    replace = Some(ns);
                    model.clear();
                    for (j, (k, _)) in kv.iter().enumerate() {
                        model.entry(*k).or_insert(tag_of(i, j));
                    }
                }
                SOp::CloneSwap => {
                    replace = Some(s.clone());
                }
                SOp::Iterate => {
                    let mut a: Vec<u32> = if pinned { s.pin().iter().map(|k| k.k).collect() } else { s.iter(&g).map(|k| k.k).collect() };
                    a.sort_unstable();
                    expect!(a, model.keys().copied().collect::<Vec<_>>(), "iter");
                    let r = s.pin();
                    let mut b: Vec<u32> = (&r).into_iter().map(|k| k.k).collect();
                    b.sort_unstable();
                    expect!(b, model.keys().copied().collect::<Vec<_>>(), "IntoIterator for &HashSetRef");
                }
                SOp::Debug => {
                    let sdbg = if pinned { format!("{:?}", s.pin()) } else { format!("{:?}", s) };
                    let inner = sdbg.trim().strip_prefix('{').and_then(|x| x.strip_suffix('}')).ok_or_else(|| format!("step {}: Debug output {:?} is not a set rendering", i, sdbg))?;
                    let mut got: Vec<String> = inner.split(", ").filter(|x| !x.is_empty()).map(|x| x.to_string()).collect();
                    got.sort();
                    let mut want: Vec<String> = model.keys().map(|k| format!("k{}", k)).collect();
                    want.sort();
                    expect!(got, want, "Debug");
                }
                SOp::EqCheck(perturb) => {
                    let mut other: BTreeSet<u32> = model.keys().copied().collect();
                    match perturb {
                        2 => {
                            other.insert(9_999);
                        }
                        1 | 3 => {
                            let k = other.iter().next().copied();
                            if let Some(k) = k {
                                other.remove(&k);
                            }
                        }
                        _ => {}
                    }
                    let o = PSet::with_capacity_and_hasher(0, SimBuild(p.hash));
                    {
                        let og = o.guard();
                        for k in other.iter().rev() {
                            o.insert(PK { k: *k, tag: 7 }, &og);
                        }
                    }
                    let mine: BTreeSet<u32> = model.keys().copied().collect();
                    let want = mine == other;
                    let og = o.guard();
                    let got = (*s == o, o == *s, s.pin() == o.pin(), s.with_guard(&g) == o, *s == o.with_guard(&og));
                    expect!(got, (want, want, want, want, want), "== (set==set, reversed, ref==ref, ref==set, set==ref)");
                }
                SOp::SetRel(ks) => {
                    let other: BTreeSet<u32> = ks.iter().copied().collect();
                    let o = PSet::with_capacity_and_hasher(0, SimBuild(p.hash));
                    let og = o.guard();
                    for k in &other {
                        o.insert(PK { k: *k, tag: 7 }, &og);
                    }
                    let mine: BTreeSet<u32> = model.keys().copied().collect();
                    let want = (mine.is_disjoint(&other), mine.is_subset(&other), mine.is_superset(&other));
                    let got = if pinned { (s.pin().is_disjoint(&o.pin()), s.pin().is_subset(&o.pin()), s.pin().is_superset(&o.pin())) } else { (s.is_disjoint(&o, &g, &og), s.is_subset(&o, &g, &og), s.is_superset(&o, &g, &og)) };
                    expect!(got, want, "(is_disjoint, is_subset, is_superset)");
                }
            }
            Ok(())
        })();
        if let Err(e) = r {
            return (Some((i, e)), i, max_table);
        }
        if let Some(ns) = replace {
            set = ns;
        }
        // contents after every step
        {
            let g = set.guard();
            let mut it: Vec<(u32, u32)> = set.iter(&g).map(|k| (k.k, k.tag)).collect();
            it.sort_unstable();
            let want: Vec<(u32, u32)> = model.iter().map(|(k, t)| (*k, *t)).collect();
            if it != want {
                return (Some((i, format!("after step {} (set): contents (key, kept key object) are {:?}, the reference set holds {:?}", i, it, want))), i, max_table);
            }
            if set.len() != model.len() {
                return (Some((i, format!("after step {} (set): len() = {}, reference has {}", i, set.len(), model.len()))), i, max_table);
            }
        }
        max_table = max_table.max(set.verif_map().verif_table_len());
    }
    (None, p.ops.len(), max_table)
}

/// Runs the program as the single thread of a simulation.
pub fn execute(p: &SeqProgram) -> SeqOutcome {
    crate::alloc::begin();
    let result = std::sync::Mutex::new(None);
    let mut setup = RunSetup::new(1);
    setup.strat = Strategy::RoundRobin { quantum: 1000, left: 1000 };
    setup.budget = 50_000_000;
    let rref = &result;
    let job: Box<dyn FnOnce() + Send + '_> = Box::new(move || {
        let r = std::panic::catch_unwind(std::panic::AssertUnwindSafe(|| if p.set { run_set(p) } else { run_map(p) }));
        let r = match r {
            Ok(x) => x,
            Err(e) => {
                let msg = if let Some(s) = e.downcast_ref::<&str>() {
                    s.to_string()
                } else if let Some(s) = e.downcast_ref::<String>() {
                    s.clone()
                } else {
                    "panic".into()
                };
                (Some((usize::MAX, format!("an operation panicked: {}", msg))), 0, 0)
            }
        };
        *rref.lock().unwrap() = Some(r);
    });
    let out = sched::run(setup, vec![job]);
    let rep = crate::alloc::end();
    let (mut failure, steps, max_table) = result.lock().unwrap().take().unwrap_or((Some((usize::MAX, "run did not finish".into())), 0, 0));
    if failure.is_none() {
        if rep.double_free > 0 {
            failure = Some((usize::MAX, format!("{} blocks were freed twice", rep.double_free)));
        } else if let Some((_, size, off, byte)) = rep.damaged.first() {
            failure = Some((usize::MAX, format!("a freed block of {} bytes was written at offset {} (byte {:#04x})", size, off, byte)));
        }
    }
    SeqOutcome { failure, steps_done: steps, max_table, clock: out.clock }
}

/// Shrinks a failing sequence in-process (sequential runs cannot wedge).
pub fn minimise(p: &SeqProgram) -> SeqProgram {
    let mut best = p.clone();
    if let Some((i, _)) = execute(&best).failure {
        if i != usize::MAX && i + 1 < best.ops.len() {
            best.ops.truncate(i + 1);
            best.pinned.truncate(i + 1);
        }
    }
    let mut i = 0;
    while i < best.ops.len() {
        let mut c = best.clone();
        c.ops.remove(i);
        if i < c.pinned.len() {
            c.pinned.remove(i);
        }
        if !c.ops.is_empty() && execute(&c).failure.is_some() {
            best = c;
        } else {
            i += 1;
        }
    }
    for cap in [0u32, 16] {
        let mut c = best.clone();
        c.capacity = cap;
        if c != best && execute(&c).failure.is_some() {
            best = c;
            break;
        }
    }
    best
}
