//! Seeded generation of programs, schedules and fault plans (swarm style: every run draws its
//! own sizes, operation mix, hash function, table shape, guard policy, knobs and strategy).

use crate::program::*;
use crate::rng::Rng;
use crate::sched::{Faults, RunSetup, Seg, Strategy, MAXT, MAXT_CLASSIC, NEV, SITE_EV0, SITE_LOCK, SITE_OPEND, SITE_OPSTART};
use crate::types::HashKind;

#[derive(Clone, Debug)]
pub struct Mix {
    pub get: u32,
    pub contains: u32,
    pub getkv: u32,
    pub insert: u32,
    pub try_insert: u32,
    pub remove: u32,
    pub remove_entry: u32,
    pub compute_replace: u32,
    pub compute_inc: u32,
    pub compute_remove: u32,
    pub retain: u32,
    pub retain_force: u32,
    pub clear: u32,
    pub reserve: u32,
    pub len: u32,
    pub iter_all: u32,
    pub iter_step: u32,
    pub extend: u32,
    pub collect: u32,
}

impl Mix {
    pub fn per_key() -> Mix {
        Mix {
            get: 3,
            contains: 1,
            getkv: 1,
            insert: 4,
            try_insert: 2,
            remove: 3,
            remove_entry: 1,
            compute_replace: 1,
            compute_inc: 1,
            compute_remove: 1,
            retain: 0,
            retain_force: 0,
            clear: 0,
            reserve: 0,
            len: 0,
            iter_all: 0,
            iter_step: 0,
            extend: 0,
            collect: 0,
        }
    }
    pub fn zero() -> Mix {
        Mix {
            get: 0,
            contains: 0,
            getkv: 0,
            insert: 0,
            try_insert: 0,
            remove: 0,
            remove_entry: 0,
            compute_replace: 0,
            compute_inc: 0,
            compute_remove: 0,
            retain: 0,
            retain_force: 0,
            clear: 0,
            reserve: 0,
            len: 0,
            iter_all: 0,
            iter_step: 0,
            extend: 0,
            collect: 0,
        }
    }
    fn weights(&self) -> [u32; 19] {
        [
            self.get,
            self.contains,
            self.getkv,
            self.insert,
            self.try_insert,
            self.remove,
            self.remove_entry,
            self.compute_replace,
            self.compute_inc,
            self.compute_remove,
            self.retain,
            self.retain_force,
            self.clear,
            self.reserve,
            self.len,
            self.iter_all,
            self.iter_step,
            self.extend,
            self.collect,
        ]
    }
    /// Swarm: knock out a random subset of the enabled kinds (never all of them).
    pub fn swarm(&self, rng: &mut Rng) -> Mix {
        let mut w = self.weights();
        let enabled: Vec<usize> = (0..w.len()).filter(|&i| w[i] > 0).collect();
        if enabled.len() > 2 {
            for &i in &enabled {
                if rng.chance(1, 4) {
                    w[i] = 0;
                }
            }
            if w.iter().all(|&x| x == 0) {
                w = self.weights();
            }
        }
        Mix {
            get: w[0],
            contains: w[1],
            getkv: w[2],
            insert: w[3],
            try_insert: w[4],
            remove: w[5],
            remove_entry: w[6],
            compute_replace: w[7],
            compute_inc: w[8],
            compute_remove: w[9],
            retain: w[10],
            retain_force: w[11],
            clear: w[12],
            reserve: w[13],
            len: w[14],
            iter_all: w[15],
            iter_step: w[16],
            extend: w[17],
            collect: w[18],
        }
    }
}

#[derive(Clone, Copy, Debug, PartialEq, Eq)]
pub enum Shape {
    /// random small capacity, random pre-population
    Plain,
    /// 16 bins holding 11 entries: the next new key starts a resize
    AtThreshold,
    /// 2- or 4-bin table: a few inserts run through several generations
    Tiny,
    /// >= 64 bins, one bin holding a tree of 9..14 colliding keys
    Tree,
    /// tree bin shrunk to the untreeify boundary
    TreeShrunk,
    /// list bin with 7 colliding keys in a >= 64 bin table: the next two inserts treeify
    AlmostTree,
    /// 64 bins at threshold with a tree bin that a resize will split
    TreeAtThreshold,
    /// never allocated
    Unallocated,
    /// one bin holding a tree of 24..60 colliding keys (lookup cost separates a tree from a list)
    BigTree,
}

pub const ALL_SHAPES: [Shape; 8] = [
    Shape::Plain,
    Shape::AtThreshold,
    Shape::Tiny,
    Shape::Tree,
    Shape::TreeShrunk,
    Shape::AlmostTree,
    Shape::TreeAtThreshold,
    Shape::Unallocated,
];

#[derive(Clone, Debug)]
pub struct GenCfg {
    pub mix: Mix,
    pub threads: (usize, usize),
    pub ops: (usize, usize),
    pub hot_keys: (usize, usize),
    pub shapes: Vec<Shape>,
    pub allow_set: bool,
    /// probability (out of 100) that a thread keeps one guard over several operations
    pub hold_guard: u32,
    /// reclamation pressure: small batches, flush/refresh sprinkled in
    pub pressure: bool,
    pub swarm: bool,
    pub hashes: Vec<HashKind>,
}

impl GenCfg {
    pub fn base() -> GenCfg {
        GenCfg {
            mix: Mix::per_key(),
            threads: (2, 4),
            ops: (2, 7),
            hot_keys: (2, 5),
            shapes: ALL_SHAPES.to_vec(),
            allow_set: true,
            hold_guard: 30,
            pressure: false,
            swarm: true,
            hashes: vec![],
        }
    }
}

pub struct ShapeOut {
    pub hash: HashKind,
    pub capacity: u32,
    pub prepop: Vec<u32>,
    pub preremove: Vec<u32>,
    /// keys that exist after pre-population and are interesting to touch
    pub existing: Vec<u32>,
    /// keys that do not exist and land in interesting places
    pub fresh: Vec<u32>,
}

fn pick_hash(rng: &mut Rng, allowed: &[HashKind]) -> HashKind {
    if !allowed.is_empty() {
        return *rng.pick(allowed);
    }
    match rng.below(7) {
        0 => HashKind::Uniform(rng.below(1000)),
        1 => HashKind::Const,
        2 => HashKind::SameBin,
        3 => HashKind::HighBits,
        4 => HashKind::Identity,
        5 => HashKind::Mod(rng.range(1, 4) as u32),
        _ => HashKind::Split(rng.range(1, 3) as u32),
    }
}

pub fn make_shape(rng: &mut Rng, shape: Shape, allowed: &[HashKind]) -> ShapeOut {
    match shape {
        Shape::Unallocated => ShapeOut {
            hash: pick_hash(rng, allowed),
            capacity: 0,
            prepop: vec![],
            preremove: vec![],
            existing: vec![],
            fresh: (0..12).collect(),
        },
        Shape::Plain => {
            let capacity = *rng.pick(&[0u32, 0, 1, 2, 5, 10, 16, 21, 33, 42, 64]);
            let n = rng.below(10) as u32;
            let prepop: Vec<u32> = (0..n).collect();
            ShapeOut {
                hash: pick_hash(rng, allowed),
                capacity,
                existing: prepop.clone(),
                prepop,
                preremove: vec![],
                fresh: (n..n + 10).collect(),
            }
        }
        Shape::AtThreshold => {
            // default table: 16 bins, resize when the count reaches 12
            let useed = rng.below(100);
            let hash = if allowed.is_empty() {
                *rng.pick(&[HashKind::Identity, HashKind::Uniform(useed), HashKind::Split(2), HashKind::Mod(4), HashKind::HighBits])
            } else {
                *rng.pick(allowed)
            };
            let n = 11 - rng.below(2) as u32;
            let prepop: Vec<u32> = (0..n).collect();
            ShapeOut {
                hash,
                capacity: 0,
                existing: prepop.clone(),
                prepop,
                preremove: vec![],
                fresh: (n..n + 12).collect(),
            }
        }
        Shape::Tiny => {
            let capacity = *rng.pick(&[1u32, 1, 2]);
            let n = rng.below(3) as u32;
            let prepop: Vec<u32> = (0..n).collect();
            ShapeOut {
                hash: pick_hash(rng, allowed),
                capacity,
                existing: prepop.clone(),
                prepop,
                preremove: vec![],
                fresh: (n..n + 12).collect(),
            }
        }
        Shape::Tree | Shape::TreeShrunk | Shape::AlmostTree | Shape::TreeAtThreshold | Shape::BigTree => {
            // colliding keys: multiples of 64 collide in a 64-bin table under Identity and split
            // on later resizes; Const/SameBin collide for ever
            let hash = if allowed.is_empty() {
                *rng.pick(&[HashKind::Const, HashKind::SameBin, HashKind::Identity, HashKind::Mod(2), HashKind::Mixed(3), HashKind::Mixed(4)])
            } else {
                *rng.pick(allowed)
            };
            let mult: u32 = match hash {
                HashKind::Identity if shape == Shape::BigTree => 256,
                HashKind::Identity => 64,
                HashKind::Mod(m) => m.max(1),
                _ => 1,
            };
            let count = match shape {
                Shape::AlmostTree => 7 + rng.below(2) as u32,
                Shape::TreeShrunk => 9 + rng.below(2) as u32,
                Shape::BigTree => 24 + rng.below(37) as u32,
                _ => 9 + rng.below(6) as u32,
            };
            let mut prepop: Vec<u32> = (0..count).map(|i| i * mult).collect();
            if rng.chance(1, 2) {
                rng.shuffle(&mut prepop);
            }
            let mut existing = prepop.clone();
            let mut preremove = vec![];
            if shape == Shape::TreeShrunk {
                // remove down to 7 or 8 entries: the next removals hit the untreeify test
                let target = 7 + rng.below(2) as usize;
                while existing.len() > target {
                    let i = rng.usize(existing.len());
                    preremove.push(existing.remove(i));
                }
            }
            let mut fresh: Vec<u32> = (count..count + 8).map(|i| i * mult).collect();
            let mut capacity = if shape == Shape::BigTree { 120 } else { 42 }; // 256 / 64 bins
            if shape == Shape::TreeAtThreshold {
                // fill other bins up to one below the threshold (48) of a 64-bin table
                let have = prepop.len() as u32;
                let mut k = 1;
                let mut fillers = vec![];
                while (have + fillers.len() as u32) < 47 {
                    if mult == 64 && k % 64 != 0 {
                        fillers.push(k);
                    } else if mult != 64 {
                        break;
                    }
                    k += 1;
                }
                if mult != 64 {
                    // colliding-for-ever hashes cannot fill other bins; use a table whose
                    // threshold the tree itself approaches instead
                    capacity = 42;
                } else {
                    fresh.extend((0..6).map(|i| 2000 + i));
                    prepop.extend(fillers);
                }
            }
            ShapeOut {
                hash,
                capacity,
                prepop,
                preremove,
                existing,
                fresh,
            }
        }
    }
}

fn pick_weighted(rng: &mut Rng, w: &[u32]) -> usize {
    let total: u32 = w.iter().sum();
    let mut x = rng.below(total.max(1) as u64) as u32;
    for (i, &wi) in w.iter().enumerate() {
        if x < wi {
            return i;
        }
        x -= wi;
    }
    0
}

/// A scripted race that random programs essentially never compose: a list bin of 8 colliding
/// keys in a 64-bin table; one thread inserts the 9th (and will treeify after releasing the
/// lock), another removes the original 8, a third removes the 9th, a fourth reads / iterates.
/// Depending on the schedule the bin is treeified while holding 1..9 nodes, shrinks to a
/// one-node tree, and is emptied under a reader's feet.
pub fn gen_shrinking_tree_race(rng: &mut Rng, with_iter: bool) -> Program {
    let hash = *rng.pick(&[HashKind::Const, HashKind::SameBin, HashKind::Mod(1)]);
    let n0 = 8u32;
    let mut vid = 1u32;
    let mut nv = || {
        vid += 1;
        vid
    };
    let mut removes: Vec<u32> = (0..n0).collect();
    rng.shuffle(&mut removes);
    let keep = rng.below(3) as usize; // leave 0..2 of the original keys
    removes.truncate(n0 as usize - keep);
    let t0 = vec![Op::Insert(n0, nv())];
    let t1: Vec<Op> = removes.iter().map(|&k| if rng.chance(1, 4) { Op::Compute(k, CFn::Remove, 0) } else { Op::Remove(k) }).collect();
    let mut t2 = vec![];
    if rng.chance(1, 2) {
        t2.push(Op::Get(n0));
    }
    t2.push(if rng.chance(1, 3) { Op::Compute(n0, CFn::Remove, 0) } else { Op::Remove(n0) });
    if rng.chance(1, 2) {
        t2.push(Op::Insert(n0 + 1, nv()));
    }
    let mut t3 = vec![];
    let reads = rng.range(1, 4);
    for _ in 0..reads {
        t3.push(if with_iter {
            match rng.below(4) {
                0 => Op::IterAll(IterKind::Iter),
                1 => Op::IterAll(IterKind::Keys),
                2 => Op::Get(n0),
                _ => Op::IterAll(IterKind::Values),
            }
        } else {
            match rng.below(3) {
                0 => Op::Get(n0),
                1 => Op::GetKV(*rng.pick(&removes)),
                _ => Op::Contains(n0),
            }
        });
    }
    let mut threads = vec![t0, t1, t2, t3];
    if rng.chance(1, 3) {
        threads.push(vec![Op::Retain(Pred::DropKeys(n0, 0)), Op::Clear]);
    }
    let facade = threads.iter().map(|_| if rng.chance(1, 3) { Facade::Pinned } else { Facade::Guarded }).collect();
    Program {
        cfg: Config {
            hash,
            capacity: 42,
            batch: *rng.pick(&[1u32, 2, 120]),
            set: false,
            ncpu: None,
            min_stride: None,
            prepop: (0..n0).collect(),
            preremove: vec![],
            facade,
        },
        threads,
    }
}

pub fn gen_program(rng: &mut Rng, gc: &GenCfg) -> Program {
    let shape = *rng.pick(&gc.shapes);
    let so = make_shape(rng, shape, &gc.hashes);
    let set = gc.allow_set && rng.chance(1, 7);
    let nthreads = rng.range(gc.threads.0 as u64, gc.threads.1 as u64) as usize;
    let mix = if gc.swarm { gc.mix.swarm(rng) } else { gc.mix.clone() };
    // hot keys: a few existing and a few fresh ones
    let nhot = rng.range(gc.hot_keys.0 as u64, gc.hot_keys.1 as u64) as usize;
    let mut hot: Vec<u32> = Vec::new();
    let mut ex = so.existing.clone();
    let mut fr = so.fresh.clone();
    rng.shuffle(&mut ex);
    rng.shuffle(&mut fr);
    for i in 0..nhot {
        let from_existing = !ex.is_empty() && (fr.is_empty() || rng.chance(1, 2));
        if from_existing {
            hot.push(ex.pop().unwrap());
        } else if let Some(k) = fr.pop() {
            hot.push(k);
        } else {
            hot.push(5000 + i as u32);
        }
    }
    let mut next_vid = 1u32;
    let mut next_extend_key = 100_000u32;
    let mut threads = Vec::new();
    let mut facade = Vec::new();
    let w = mix.weights();
    for _t in 0..nthreads {
        let nops = rng.range(gc.ops.0 as u64, gc.ops.1 as u64) as usize;
        let hold = rng.below(100) < gc.hold_guard as u64;
        let mut ops = Vec::new();
        let mut iter_open = false;
        if hold {
            ops.push(Op::Pin);
        }
        for _ in 0..nops {
            let k = *rng.pick(&hot);
            let kind = pick_weighted(rng, &w);
            let op = match kind {
                0 => Op::Get(k),
                1 => Op::Contains(k),
                2 => Op::GetKV(k),
                3 => {
                    next_vid += 1;
                    Op::Insert(k, next_vid)
                }
                4 => {
                    next_vid += 1;
                    Op::TryInsert(k, next_vid)
                }
                5 => Op::Remove(k),
                6 => Op::RemoveEntry(k),
                7 => {
                    next_vid += 1;
                    Op::Compute(k, CFn::Replace, next_vid)
                }
                8 => {
                    next_vid += 1;
                    Op::Compute(k, CFn::Inc, next_vid)
                }
                9 => Op::Compute(k, CFn::Remove, 0),
                10 | 11 => {
                    let pred = match rng.below(9) {
                        8 => {
                            next_vid += 1;
                            Pred::ReinsertReject(*rng.pick(&hot), next_vid)
                        }
                        0 => Pred::KeyMod(2, rng.below(2) as u32),
                        1 => Pred::ValEven,
                        2 => Pred::DropAll,
                        3 => Pred::KeyMod(3, rng.below(3) as u32),
                        // reject just one or two of the contended keys: the bin keeps its shape
                        _ => Pred::DropKeys(*rng.pick(&hot), *rng.pick(&hot)),
                    };
                    if kind == 10 {
                        Op::Retain(pred)
                    } else {
                        Op::RetainForce(pred)
                    }
                }
                12 => Op::Clear,
                13 => Op::Reserve(*rng.pick(&[1u32, 4, 12, 13, 30, 50])),
                14 => match rng.below(4) {
                    0 => Op::EqSelf,
                    1 => Op::Rel(rng.below(8) as u8),
                    _ => Op::Len,
                },
                15 => Op::IterAll(*rng.pick(&[IterKind::Iter, IterKind::Keys, IterKind::Values, IterKind::Clone])),
                16 => {
                    if !iter_open {
                        iter_open = true;
                        Op::IterOpen(*rng.pick(&[IterKind::Iter, IterKind::Iter, IterKind::Keys, IterKind::Values]))
                    } else if rng.chance(1, 5) {
                        iter_open = false;
                        Op::IterClose
                    } else {
                        Op::IterNext(rng.range(1, 4) as u32)
                    }
                }
                18 => {
                    // bulk construction: sizes around the resize / treeify thresholds, colliding
                    // keys per the run's hash function, with and without a size hint
                    let n = *rng.pick(&[1u64, 2, 3, 9, 12, 13, 17, 25, 40, 70, 100, 200]);
                    let dup = rng.chance(1, 4);
                    let kv = (0..n)
                        .map(|i| {
                            next_vid += 1;
                            let k = if dup && i > 0 && rng.chance(1, 3) { rng.below(i) as u32 } else { i as u32 };
                            (k * 7, next_vid)
                        })
                        .collect();
                    Op::Collect(kv, rng.chance(1, 2))
                }
                _ => {
                    let n = rng.range(1, 4);
                    let kv = (0..n)
                        .map(|_| {
                            next_vid += 1;
                            let k = if rng.chance(1, 2) {
                                *rng.pick(&hot)
                            } else {
                                next_extend_key += 1;
                                next_extend_key
                            };
                            (k, next_vid)
                        })
                        .collect();
                    Op::Extend(kv)
                }
            };
            let opens_iter = matches!(op, Op::IterOpen(_));
            ops.push(op);
            if opens_iter {
                // an open iterator pins a guard until it is closed
                continue;
            }
            if gc.pressure && rng.chance(1, 4) {
                ops.push(Op::Flush);
            }
            if hold && !iter_open {
                match rng.below(12) {
                    0 => ops.push(Op::Refresh),
                    1 => {
                        ops.push(Op::Unpin);
                        ops.push(Op::Pin);
                    }
                    2 | 3 => ops.push(Op::Recheck),
                    _ => {}
                }
            }
        }
        if iter_open {
            // drain what is left so that termination is exercised
            ops.push(Op::IterNext(1000));
            ops.push(Op::IterClose);
        }
        if hold {
            ops.push(Op::Recheck);
            ops.push(Op::Unpin);
        }
        threads.push(ops);
        facade.push(if rng.chance(1, 3) { Facade::Pinned } else { Facade::Guarded });
    }
    let batch = if gc.pressure {
        rng.range(1, 4) as u32
    } else {
        *rng.pick(&[1u32, 2, 8, 120])
    };
    let (ncpu, min_stride) = match rng.below(4) {
        0 => (None, None),
        _ => (Some(*rng.pick(&[1u32, 2, 4, 8])), Some(*rng.pick(&[1u32, 1, 2, 4, 16]))),
    };
    Program {
        cfg: Config {
            hash: so.hash,
            capacity: so.capacity,
            batch,
            set,
            ncpu,
            min_stride,
            prepop: so.prepop,
            preremove: so.preremove,
            facade,
        },
        threads,
    }
}

/// Kinds of sites at which a scripted segment may end: lock released, pointer store / CAS / swap,
/// control-word CAS, lock-state CAS, operation boundaries, a few site events.
pub fn script_sites() -> Vec<u8> {
    use flurry::verif::Ev;
    vec![
        SITE_EV0 + Ev::LockReleased as u8,
        SITE_EV0 + Ev::LockReleased as u8,
        1,  // ptr store
        1,
        2,  // ptr swap
        3,  // ptr cas
        0,  // ptr load
        8 + 3,  // ctl cas
        8 + 1,  // ctl store
        16 + 3, // lock-state cas
        SITE_OPEND,
        SITE_LOCK,
        SITE_EV0 + Ev::BinMigrated as u8,
        SITE_EV0 + Ev::Treeified as u8,
        SITE_EV0 + Ev::ResizeStarted as u8,
        SITE_EV0 + Ev::Retire as u8,
        SITE_EV0 + Ev::Retire as u8,
    ]
}

pub fn random_script(rng: &mut Rng, nthreads: usize) -> Strategy {
    let sites = script_sites();
    let nseg = rng.range(2, 9);
    let mut segs = Vec::new();
    for _ in 0..nseg {
        let thread = rng.usize(nthreads.max(1)) as u8;
        let site = if rng.chance(1, 4) { None } else { Some(*rng.pick(&sites)) };
        segs.push(Seg { thread, site, nth: rng.range(1, 5) as u32 });
    }
    Strategy::Script { segs, cur: 0, hits: 0 }
}

/// Reclamation race: pause a thread right after its n-th retirement (the object may still be
/// reachable if the code retired it too early), let another thread run up to its m-th pointer
/// load (it pins a guard and may pick the object up), let the first one finish - it releases its
/// guard, which is when seize frees what it retired - then let the other one continue and touch
/// what it holds.
pub fn retire_race_script(rng: &mut Rng, nthreads: usize) -> Strategy {
    use flurry::verif::Ev;
    let retire = SITE_EV0 + Ev::Retire as u8;
    let a = rng.usize(nthreads.max(1)) as u8;
    let mut b = rng.usize(nthreads.max(1)) as u8;
    if b == a {
        b = (a + 1) % nthreads.max(1) as u8;
    }
    let mut segs = Vec::new();
    if rng.chance(1, 2) {
        // let the reader get somewhere first (it may or may not be pinned at the retirement)
        segs.push(Seg { thread: b, site: Some(*rng.pick(&[SITE_OPEND, SITE_OPSTART, 0u8])), nth: rng.range(1, 6) as u32 });
    }
    segs.push(Seg { thread: a, site: Some(retire), nth: rng.range(1, 8) as u32 });
    segs.push(Seg { thread: b, site: Some(0), nth: rng.range(1, 14) as u32 });
    segs.push(Seg { thread: a, site: None, nth: 1 });
    segs.push(Seg { thread: b, site: None, nth: 1 });
    Strategy::Script { segs, cur: 0, hits: 0 }
}

/// Script for `gen_shrinking_tree_race`: inserter up to its n-th lock release, remover to the
/// end, inserter to the end (it treeifies what is left), last remover up to its n-th pointer
/// store, then the reader - with jitter on every parameter so that the neighbourhood of that
/// schedule is explored, not one point.
pub fn shrinking_tree_script(rng: &mut Rng, nthreads: usize) -> Strategy {
    use flurry::verif::Ev;
    let rel = SITE_EV0 + Ev::LockReleased as u8;
    let mut segs = vec![
        Seg { thread: 0, site: Some(rel), nth: rng.range(1, 2) as u32 },
        Seg { thread: 1, site: None, nth: 1 },
        Seg { thread: 0, site: None, nth: 1 },
        Seg { thread: 2, site: Some(*rng.pick(&[1u8, 1, 1, 0, 3, rel])), nth: rng.range(1, 6) as u32 },
        Seg { thread: 3, site: None, nth: 1 },
    ];
    if rng.chance(1, 3) {
        // perturb: swap two neighbouring segments or insert a random one
        let i = rng.usize(segs.len() - 1);
        segs.swap(i, i + 1);
    }
    if nthreads > 4 && rng.chance(1, 2) {
        let at = rng.usize(segs.len());
        segs.insert(at, Seg { thread: 4, site: Some(rel), nth: rng.range(1, 4) as u32 });
    }
    Strategy::Script { segs, cur: 0, hits: 0 }
}

/// Draws the scheduling strategy and fault plan of one run.
pub fn gen_setup(rng: &mut Rng, seed: u64, p: &Program, stall_pct: u32, spurious: bool) -> RunSetup {
    let mut s = RunSetup::new(seed);
    let ops = p.op_count() as u64;
    let est = 40 * ops + 200;
    s.strat = match rng.below(10) {
        0..=3 => Strategy::Random {
            p: *rng.pick(&[3u64, 8, 20, 50, 100, 200, 350, 512]),
        },
        4..=6 => {
            let d = rng.range(1, 5);
            let mut prio = [0u32; MAXT];
            let mut order: Vec<u32> = (0..MAXT_CLASSIC as u32).collect();
            rng.shuffle(&mut order);
            for (i, o) in order.iter().enumerate() {
                prio[i] = 1000 + *o;
            }
            let mut points: Vec<u64> = (0..d).map(|_| rng.range(1, est)).collect();
            points.sort_unstable_by(|a, b| b.cmp(a));
            Strategy::Pct { prio, points, low: 999 }
        }
        7..=8 => {
            let mut hot = [false; 256];
            // a random subset of site kinds is hot
            let candidates: Vec<u8> = (0..24u8)
                .chain(SITE_EV0..SITE_EV0 + NEV as u8)
                .chain([SITE_OPSTART, SITE_OPEND, SITE_LOCK])
                .collect();
            let n = rng.range(1, 5);
            for _ in 0..n {
                hot[*rng.pick(&candidates) as usize] = true;
            }
            Strategy::Biased {
                hot,
                p_hot: *rng.pick(&[512u64, 820, 1024]),
                p_cold: *rng.pick(&[0u64, 10, 40]),
            }
        }
        9 if rng.chance(1, 2) => Strategy::RoundRobin {
            quantum: rng.range(1, 12),
            left: 0,
        },
        _ => random_script(rng, p.threads.len()),
    };
    let mut f = Faults::default();
    if rng.below(100) < stall_pct as u64 {
        let n = rng.range(1, 2);
        for _ in 0..n {
            f.stall_at.push(rng.range(2, est));
        }
    }
    if spurious && rng.chance(1, 3) {
        f.spurious_unpark = *rng.pick(&[10u64, 100, 400]);
    }
    s.faults = f;
    s
}

/// C19 scenarios: rayon `par_extend` / `from_par_iter` through the simulated pool. One or two
/// threads publish a parallel bulk insertion cut into 1..4 parts, the other threads act as pool
/// workers at random points of their own programs (or not at all: then the publisher runs every
/// part itself), and in half of the runs ordinary operations on the same keys go on meanwhile.
pub fn gen_par_program(rng: &mut Rng, gc: &GenCfg) -> Program {
    let mut gc = gc.clone();
    let quiet_background = rng.chance(1, 2);
    if quiet_background {
        gc.ops = (0, 0);
        gc.hold_guard = 0;
    }
    let mut p = gen_program(rng, &gc);
    if quiet_background {
        for t in p.threads.iter_mut() {
            t.clear();
        }
    }
    let n = p.threads.len();
    let mut known: Vec<u32> = crate::exec::universe(&p);
    if known.is_empty() {
        known.push(1);
    }
    let owners = if n >= 2 && rng.chance(3, 10) { 2 } else { 1 };
    let mut next_vid = 5_000_000u32;
    let mut next_key = 300_000u32;
    let mut owner_threads: Vec<usize> = (0..n).collect();
    rng.shuffle(&mut owner_threads);
    owner_threads.truncate(owners);
    for &t in &owner_threads {
        let count = *rng.pick(&[1u64, 2, 3, 5, 8, 13, 20, 30]);
        let dup = rng.chance(1, 2);
        let mut kv: Vec<(u32, u32)> = Vec::new();
        for i in 0..count {
            next_vid += 1;
            let k = if dup && i > 0 && rng.chance(1, 3) {
                kv[rng.usize(kv.len())].0
            } else if rng.chance(2, 5) {
                *rng.pick(&known)
            } else {
                next_key += 1;
                next_key
            };
            // at most four items per key and call: every further one multiplies the orders the
            // linearizability search has to consider without adding a new situation
            let k = if kv.iter().filter(|x| x.0 == k).count() >= 4 {
                next_key += 1;
                next_key
            } else {
                k
            };
            kv.push((k, next_vid));
        }
        let parts = rng.range(1, 4) as u8;
        let op = if rng.chance(1, 4) { Op::ParCollect(kv, parts) } else { Op::ParExtend(kv, parts, rng.chance(1, 3)) };
        let at = rng.usize(p.threads[t].len() + 1);
        p.threads[t].insert(at, op);
    }
    let helpers_active = !rng.chance(1, 6);
    if helpers_active {
        for t in 0..n {
            let is_owner = owner_threads.contains(&t);
            let k = if is_owner { rng.below(2) } else { rng.range(1, 3) };
            for _ in 0..k {
                let at = rng.usize(p.threads[t].len() + 1);
                p.threads[t].insert(at, Op::ParHelp(rng.range(1, 3) as u8));
            }
        }
    }
    p
}

/// Crowd scenario: far more readers inside one tree bin at the same time than the ordinary
/// programs have threads. The tree-bin lock word counts readers above its two flag bits; whether
/// the count and the flags stay apart is a question of how many readers there are at once, not of
/// the interleaving of a few. Up to 38 readers are parked right behind their read-lock
/// acquisition (site event `ReaderTreePath`), then writers restructure the same bin, then the
/// readers leave, then writers come again.
pub fn gen_crowd(rng: &mut Rng) -> (Program, Strategy) {
    use flurry::verif::Ev;
    let shape = *rng.pick(&[Shape::Tree, Shape::Tree, Shape::BigTree]);
    let so = make_shape(rng, shape, &[]);
    let keys = so.existing.clone();
    let writers = rng.range(1, 2) as usize;
    let readers = (*rng.pick(&[12usize, 24, 31, 32, 32, 33, 33, 35, 38])).min(MAXT - writers);
    let mut threads: Vec<Vec<Op>> = Vec::new();
    let mut vid = 1u32;
    for _ in 0..writers {
        let n = rng.range(3, 6);
        let mut ops = Vec::new();
        for _ in 0..n {
            let k = *rng.pick(&keys);
            vid += 1;
            ops.push(match rng.below(5) {
                0 | 1 => Op::Remove(k),
                2 => Op::Insert(k, vid),
                3 => Op::Compute(k, CFn::Remove, 0),
                _ => Op::Insert(*rng.pick(&so.fresh), vid),
            });
        }
        threads.push(ops);
    }
    for _ in 0..readers {
        let k = *rng.pick(&keys);
        let mut ops = vec![if rng.chance(1, 4) { Op::GetKV(k) } else { Op::Get(k) }];
        if rng.chance(1, 4) {
            ops.push(Op::Get(*rng.pick(&keys)));
        }
        threads.push(ops);
    }
    let n = threads.len();
    let inside = SITE_EV0 + Ev::ReaderTreePath as u8;
    let mut order: Vec<u8> = (writers as u8..n as u8).collect();
    rng.shuffle(&mut order);
    let mut segs: Vec<Seg> = Vec::new();
    if rng.chance(1, 3) {
        // a writer first: readers then meet a tree that has just been restructured
        segs.push(Seg { thread: 0, site: Some(SITE_OPEND), nth: 1 });
    }
    for &r in &order {
        segs.push(Seg { thread: r, site: Some(inside), nth: 1 });
    }
    for w in 0..writers as u8 {
        // one operation: it parks behind the readers (if nothing stops it, it still has
        // operations left for the time after the readers have gone)
        segs.push(Seg { thread: w, site: Some(SITE_OPEND), nth: 1 });
    }
    rng.shuffle(&mut order);
    for &r in &order {
        segs.push(Seg { thread: r, site: None, nth: 1 });
    }
    for w in 0..writers as u8 {
        segs.push(Seg { thread: w, site: None, nth: 1 });
    }
    let facade = (0..n).map(|_| if rng.chance(1, 3) { Facade::Pinned } else { Facade::Guarded }).collect();
    let p = Program {
        cfg: Config {
            hash: so.hash,
            capacity: so.capacity,
            batch: *rng.pick(&[1u32, 8, 120]),
            set: false,
            ncpu: None,
            min_stride: None,
            prepop: so.prepop,
            preremove: so.preremove,
            facade,
        },
        threads,
    };
    (p, Strategy::Script { segs, cur: 0, hits: 0 })
}

/// Helper crowd (C10): many more threads than ordinary programs have arrive at a table that is
/// about to grow - each inserts one or two fresh keys, so that all of them meet the resize
/// (initiator race, helpers joining and leaving, bins claimed one stride at a time with the
/// smallest stride) - on a 16-bin table at its threshold, a 64-bin table with a tree bin at its
/// threshold, or a tiny table that runs through several generations.
pub fn gen_helper_crowd(rng: &mut Rng) -> Program {
    let shape = *rng.pick(&[Shape::AtThreshold, Shape::AtThreshold, Shape::TreeAtThreshold, Shape::Tiny]);
    let so = make_shape(rng, shape, &[]);
    let nthreads = *rng.pick(&[9usize, 12, 16, 24, 33, 38]);
    let mut threads = Vec::new();
    let mut vid = 1u32;
    let mut fresh = 400_000u32;
    for _ in 0..nthreads {
        let mut ops = Vec::new();
        for _ in 0..rng.range(1, 2) {
            vid += 1;
            let k = if !so.fresh.is_empty() && rng.chance(1, 3) {
                *rng.pick(&so.fresh)
            } else {
                fresh += 1;
                fresh
            };
            ops.push(match rng.below(8) {
                0 => Op::TryInsert(k, vid),
                1 => Op::Reserve(rng.range(1, 40) as u32),
                2 if !so.existing.is_empty() => Op::Get(*rng.pick(&so.existing)),
                _ => Op::Insert(k, vid),
            });
        }
        threads.push(ops);
    }
    let facade = (0..nthreads).map(|_| if rng.chance(1, 3) { Facade::Pinned } else { Facade::Guarded }).collect();
    Program {
        cfg: Config {
            hash: so.hash,
            capacity: so.capacity,
            batch: *rng.pick(&[1u32, 8, 120]),
            set: false,
            ncpu: Some(*rng.pick(&[1u32, 8, 64])),
            min_stride: Some(*rng.pick(&[1u32, 1, 2])),
            prepop: so.prepop,
            preremove: so.preremove,
            facade,
        },
        threads,
    }
}
