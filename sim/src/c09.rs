//! C09: every public guard-taking entry point, called with a guard of a foreign collector, in
//! every structural state, must panic before it reads through or retires with that guard.
//!
//! The space is finite and is enumerated completely in both tiers. The call under test runs as a
//! simulated thread so that the pointer seam (which reports the collector of the guard each
//! `Atomic::load` / `retire_shared` was handed) can witness whether the foreign guard was used.

use crate::sched::{self, RunSetup, Strategy, MAXT};
use crate::types::*;
use flurry::verif::Ev;
use serde_json::{json, Value};
use std::sync::Mutex;

#[derive(Clone, Copy, Debug, PartialEq, Eq)]
pub enum State {
    Unallocated,
    AllocatedEmpty,
    ListBins,
    TreeBin,
    MidResize,
}

pub const STATES: [State; 5] = [State::Unallocated, State::AllocatedEmpty, State::ListBins, State::TreeBin, State::MidResize];

type MapCall = fn(&Map, &flurry::Guard<'_>);
type SetCall = fn(&Set, &Set, &flurry::Guard<'_>, &flurry::Guard<'_>, u8);

fn kv(k: u32) -> (Key, Val) {
    (Key::new(k), Val::new(9_000_000 + k))
}

/// (source name used for the cross-check against the public API, call)
pub fn map_methods() -> Vec<(&'static str, MapCall)> {
    vec![
        ("HashMap::iter", |m, g| {
            let _ = m.iter(g).count();
        }),
        ("HashMap::keys", |m, g| {
            let _ = m.keys(g).count();
        }),
        ("HashMap::values", |m, g| {
            let _ = m.values(g).count();
        }),
        ("HashMap::reserve", |m, g| m.reserve(100, g)),
        ("HashMap::contains_key", |m, g| {
            let _ = m.contains_key(&KeyQ(0), g);
        }),
        ("HashMap::get", |m, g| {
            let _ = m.get(&KeyQ(0), g);
        }),
        ("HashMap::get_key_value", |m, g| {
            let _ = m.get_key_value(&KeyQ(0), g);
        }),
        ("HashMap::clear", |m, g| m.clear(g)),
        ("HashMap::insert", |m, g| {
            let (k, v) = kv(0);
            let _ = m.insert(k, v, g);
        }),
        ("HashMap::try_insert", |m, g| {
            let (k, v) = kv(0);
            let _ = m.try_insert(k, v, g);
        }),
        ("HashMap::try_insert(new key)", |m, g| {
            let (k, v) = kv(77_777);
            let _ = m.try_insert(k, v, g);
        }),
        ("HashMap::compute_if_present", |m, g| {
            let _ = m.compute_if_present(&KeyQ(0), |_, _| None, g);
        }),
        ("HashMap::remove", |m, g| {
            let _ = m.remove(&KeyQ(0), g);
        }),
        ("HashMap::remove_entry", |m, g| {
            let _ = m.remove_entry(&KeyQ(0), g);
        }),
        ("HashMap::retain", |m, g| m.retain(|_, _| false, g)),
        ("HashMap::retain_force", |m, g| m.retain_force(|_, _| false, g)),
        // the reference wrapper built from a foreign guard
        ("HashMapRef::iter", |m, g| {
            let _ = m.with_guard(g).iter().count();
        }),
        ("HashMapRef::keys", |m, g| {
            let _ = m.with_guard(g).keys().count();
        }),
        ("HashMapRef::values", |m, g| {
            let _ = m.with_guard(g).values().count();
        }),
        ("HashMapRef::reserve", |m, g| m.with_guard(g).reserve(100)),
        ("HashMapRef::contains_key", |m, g| {
            let _ = m.with_guard(g).contains_key(&KeyQ(0));
        }),
        ("HashMapRef::get", |m, g| {
            let _ = m.with_guard(g).get(&KeyQ(0));
        }),
        ("HashMapRef::get_key_value", |m, g| {
            let _ = m.with_guard(g).get_key_value(&KeyQ(0));
        }),
        ("HashMapRef::clear", |m, g| m.with_guard(g).clear()),
        ("HashMapRef::insert", |m, g| {
            let (k, v) = kv(0);
            let _ = m.with_guard(g).insert(k, v);
        }),
        ("HashMapRef::try_insert", |m, g| {
            let (k, v) = kv(0);
            let _ = m.with_guard(g).try_insert(k, v);
        }),
        ("HashMapRef::compute_if_present", |m, g| {
            let _ = m.with_guard(g).compute_if_present(&KeyQ(0), |_, _| None);
        }),
        ("HashMapRef::remove", |m, g| {
            let _ = m.with_guard(g).remove(&KeyQ(0));
        }),
        ("HashMapRef::remove_entry", |m, g| {
            let _ = m.with_guard(g).remove_entry(&KeyQ(0));
        }),
        ("HashMapRef::retain", |m, g| m.with_guard(g).retain(|_, _| false)),
        ("HashMapRef::retain_force", |m, g| m.with_guard(g).retain_force(|_, _| false)),
        ("HashMapRef::into_iter", |m, g| {
            let r = m.with_guard(g);
            let _ = (&r).into_iter().count();
        }),
        ("HashMapRef::fmt", |m, g| {
            let _ = format!("{:?}", m.with_guard(g));
        }),
        ("HashMapRef::index", |m, g| {
            let r = m.with_guard(g);
            let _ = &r[&KeyQ(0)];
        }),
        ("HashMapRef::eq(ref)", |m, g| {
            let a = m.with_guard(g);
            let b = m.pin();
            let _ = a == b;
        }),
        ("HashMapRef::eq(ref) other side", |m, g| {
            let a = m.pin();
            let b = m.with_guard(g);
            let _ = a == b;
        }),
        ("HashMapRef::eq(map)", |m, g| {
            let a = m.with_guard(g);
            let _ = a == *m;
        }),
        ("HashMap::eq(ref)", |m, g| {
            let a = m.with_guard(g);
            let _ = *m == a;
        }),
    ]
}

pub fn set_methods() -> Vec<(&'static str, SetCall)> {
    vec![
        ("HashSet::iter", |s, _, g, _, _| {
            let _ = s.iter(g).count();
        }),
        ("HashSet::contains", |s, _, g, _, _| {
            let _ = s.contains(&KeyQ(0), g);
        }),
        ("HashSet::get", |s, _, g, _, _| {
            let _ = s.get(&KeyQ(0), g);
        }),
        ("HashSet::insert", |s, _, g, _, _| {
            let _ = s.insert(Key::new(0), g);
        }),
        ("HashSet::remove", |s, _, g, _, _| {
            let _ = s.remove(&KeyQ(0), g);
        }),
        ("HashSet::take", |s, _, g, _, _| {
            let _ = s.take(&KeyQ(0), g);
        }),
        ("HashSet::retain", |s, _, g, _, _| s.retain(|_| false, g)),
        ("HashSet::clear", |s, _, g, _, _| s.clear(g)),
        ("HashSet::reserve", |s, _, g, _, _| s.reserve(100, g)),
        // two-guard relations: `which` = 0 our guard is foreign, 1 their guard is foreign
        ("HashSet::is_disjoint", |s, o, fg, own_o, which| {
            let own_s = s.guard();
            let _ = if which == 0 { s.is_disjoint(o, fg, own_o) } else { s.is_disjoint(o, &own_s, fg) };
        }),
        ("HashSet::is_subset", |s, o, fg, own_o, which| {
            let own_s = s.guard();
            let _ = if which == 0 { s.is_subset(o, fg, own_o) } else { s.is_subset(o, &own_s, fg) };
        }),
        ("HashSet::is_superset", |s, o, fg, own_o, which| {
            let own_s = s.guard();
            let _ = if which == 0 { s.is_superset(o, fg, own_o) } else { s.is_superset(o, &own_s, fg) };
        }),
        ("HashSetRef::iter", |s, _, g, _, _| {
            let _ = s.with_guard(g).iter().count();
        }),
        ("HashSetRef::contains", |s, _, g, _, _| {
            let _ = s.with_guard(g).contains(&KeyQ(0));
        }),
        ("HashSetRef::get", |s, _, g, _, _| {
            let _ = s.with_guard(g).get(&KeyQ(0));
        }),
        ("HashSetRef::insert", |s, _, g, _, _| {
            let _ = s.with_guard(g).insert(Key::new(0));
        }),
        ("HashSetRef::remove", |s, _, g, _, _| {
            let _ = s.with_guard(g).remove(&KeyQ(0));
        }),
        ("HashSetRef::take", |s, _, g, _, _| {
            let _ = s.with_guard(g).take(&KeyQ(0));
        }),
        ("HashSetRef::retain", |s, _, g, _, _| s.with_guard(g).retain(|_| false)),
        ("HashSetRef::clear", |s, _, g, _, _| s.with_guard(g).clear()),
        ("HashSetRef::reserve", |s, _, g, _, _| s.with_guard(g).reserve(100)),
        ("HashSetRef::is_disjoint", |s, o, fg, own_o, which| {
            let own_s = s.guard();
            let (a, b) = if which == 0 { (s.with_guard(fg), o.with_guard(own_o)) } else { (s.with_guard(&own_s), o.with_guard(fg)) };
            let _ = a.is_disjoint(&b);
        }),
        ("HashSetRef::is_subset", |s, o, fg, own_o, which| {
            let own_s = s.guard();
            let (a, b) = if which == 0 { (s.with_guard(fg), o.with_guard(own_o)) } else { (s.with_guard(&own_s), o.with_guard(fg)) };
            let _ = a.is_subset(&b);
        }),
        ("HashSetRef::is_superset", |s, o, fg, own_o, which| {
            let own_s = s.guard();
            let (a, b) = if which == 0 { (s.with_guard(fg), o.with_guard(own_o)) } else { (s.with_guard(&own_s), o.with_guard(fg)) };
            let _ = a.is_superset(&b);
        }),
        ("HashSetRef::into_iter", |s, _, g, _, _| {
            let r = s.with_guard(g);
            let _ = (&r).into_iter().count();
        }),
        ("HashSetRef::fmt", |s, _, g, _, _| {
            let _ = format!("{:?}", s.with_guard(g));
        }),
        ("HashSetRef::eq(ref)", |s, _, g, _, which| {
            let (a, b) = if which == 0 { (s.with_guard(g), s.pin()) } else { (s.pin(), s.with_guard(g)) };
            let _ = a == b;
        }),
        ("HashSetRef::eq(set)", |s, _, g, _, which| {
            let a = s.with_guard(g);
            let _ = if which == 0 { a == *s } else { *s == a };
        }),
    ]
}

fn two_guard(name: &str) -> bool {
    name.contains("is_disjoint") || name.contains("is_subset") || name.contains("is_superset") || name.contains("::eq(")
}

fn populate_keys(state: State) -> (u32, HashKind, Vec<u32>) {
    match state {
        State::Unallocated => (0, HashKind::Identity, vec![]),
        State::AllocatedEmpty => (10, HashKind::Identity, vec![]),
        State::ListBins => (0, HashKind::Identity, (0..8).collect()),
        State::TreeBin => (42, HashKind::Const, (0..12).collect()),
        // 16 bins holding 11 entries: the next insert starts a resize
        State::MidResize => (0, HashKind::Identity, (0..11).collect()),
    }
}

fn build_map(state: State) -> Map {
    let (cap, hash, keys) = populate_keys(state);
    DEFAULT_HASH.with(|c| c.set(hash));
    let m = Map::with_capacity_and_hasher(cap as usize, SimBuild(hash));
    {
        let g = m.guard();
        for k in keys {
            m.insert(Key::new(k), Val::new(1_000_000 + k), &g);
        }
    }
    m
}

fn build_set(state: State) -> Set {
    let (cap, hash, keys) = populate_keys(state);
    let s = Set::with_capacity_and_hasher(cap as usize, SimBuild(hash));
    {
        let g = s.guard();
        for k in keys {
            s.insert(Key::new(k), &g);
        }
    }
    s
}

fn snapshot_map(m: &Map) -> Vec<(u32, u32)> {
    let g = m.guard();
    let mut v: Vec<(u32, u32)> = m.iter(&g).map(|(k, v)| (k.k, v.id)).collect();
    v.sort_unstable();
    v
}

fn snapshot_set(s: &Set) -> Vec<u32> {
    let g = s.guard();
    let mut v: Vec<u32> = s.iter(&g).map(|k| k.k).collect();
    v.sort_unstable();
    v
}

pub struct CaseResult {
    pub name: String,
    pub state: State,
    pub which: u8,
    pub stall: u64,
    pub panicked: bool,
    pub foreign_loads: usize,
    pub foreign_retires: usize,
    pub changed: bool,
    pub verdict_err: Option<String>,
}

/// Runs `call` as simulated thread 1 (thread 0 is a writer that is stalled mid-resize in the
/// MidResize state and absent otherwise) and reports what the seams saw.
fn run_case(state: State, stall: u64, writer: Option<Box<dyn FnOnce() + Send + '_>>, call: Box<dyn FnOnce() + Send + '_>, foreign: usize) -> (bool, usize, usize, Option<String>) {
    let panicked = Mutex::new(false);
    let mut setup = RunSetup::new(1);
    let mut prio = [0u32; MAXT];
    for (t, p) in prio.iter_mut().enumerate() {
        *p = 1000 - t as u32;
    }
    setup.strat = Strategy::Pct { prio, points: vec![], low: 500 };
    setup.log_access = true;
    if state == State::MidResize && stall > 0 {
        setup.faults.stall_thread_at = Some((0, stall));
    }
    let mut jobs: Vec<Box<dyn FnOnce() + Send + '_>> = Vec::new();
    jobs.push(writer.unwrap_or_else(|| Box::new(|| {})));
    let pref = &panicked;
    jobs.push(Box::new(move || {
        let r = std::panic::catch_unwind(std::panic::AssertUnwindSafe(call));
        *pref.lock().unwrap() = r.is_err();
    }));
    let out = sched::run(setup, jobs);
    let loads = out.accesses.iter().filter(|a| a.thread == 1 && a.a.collector == foreign).count();
    let retires = out.events.iter().filter(|e| e.thread == 1 && e.ev == Ev::Retire && e.b == foreign).count();
    let verdict = out.verdict.as_ref().map(|v| format!("{:?}", v));
    let p = *panicked.lock().unwrap();
    (p, loads, retires, verdict)
}

pub fn enumerate() -> Vec<CaseResult> {
    let mut out = Vec::new();
    for state in STATES {
        // the writer is stalled at several different points of its resize
        let stalls: Vec<u64> = if state == State::MidResize { vec![30, 60, 90, 120, 150] } else { vec![0] };
        for &stall in &stalls {
            for (name, call) in map_methods() {
                ledger_reset(false);
                let m = build_map(state);
                let before = snapshot_map(&m);
                let other = seize::Collector::new();
                let foreign = &other as *const seize::Collector as usize;
                let mref = &m;
                let oref = &other;
                let writer: Option<Box<dyn FnOnce() + Send + '_>> = if state == State::MidResize {
                    Some(Box::new(move || {
                        let g = mref.guard();
                        mref.insert(Key::new(500), Val::new(500), &g);
                    }))
                } else {
                    None
                };
                let (panicked, loads, retires, verdict) = run_case(
                    state,
                    stall,
                    writer,
                    Box::new(move || {
                        let fg = oref.enter();
                        call(mref, &fg);
                    }),
                    foreign,
                );
                let mut after = snapshot_map(&m);
                after.retain(|x| x.0 != 500);
                out.push(CaseResult { name: name.to_string(), state, which: 0, stall, panicked, foreign_loads: loads, foreign_retires: retires, changed: before != after, verdict_err: verdict });
            }
            for (name, call) in set_methods() {
                let variants: &[u8] = if two_guard(name) { &[0, 1] } else { &[0] };
                for &which in variants {
                    ledger_reset(false);
                    let s = build_set(state);
                    let o = build_set(State::ListBins);
                    let before = snapshot_set(&s);
                    let other = seize::Collector::new();
                    let foreign = &other as *const seize::Collector as usize;
                    let (sref, oref2, cref) = (&s, &o, &other);
                    let writer: Option<Box<dyn FnOnce() + Send + '_>> = if state == State::MidResize {
                        Some(Box::new(move || {
                            let g = sref.guard();
                            sref.insert(Key::new(500), &g);
                        }))
                    } else {
                        None
                    };
                    let (panicked, loads, retires, verdict) = run_case(
                        state,
                        stall,
                        writer,
                        Box::new(move || {
                            let fg = cref.enter();
                            let own_o = oref2.guard();
                            call(sref, oref2, &fg, &own_o, which);
                        }),
                        foreign,
                    );
                    let mut after = snapshot_set(&s);
                    after.retain(|x| *x != 500);
                    out.push(CaseResult { name: name.to_string(), state, which, stall, panicked, foreign_loads: loads, foreign_retires: retires, changed: before != after, verdict_err: verdict });
                }
            }
        }
    }
    out
}

/// Cross-check of the method table against the public API in the sources: every `pub fn` of
/// HashMap / HashSet that takes a `Guard` and every `pub fn` / trait method of the reference
/// wrappers must appear in the table, otherwise the check is a harness error (a new entry point
/// must not be silently skipped).
pub fn crosscheck() -> Result<usize, String> {
    let mut names: Vec<String> = map_methods().iter().map(|x| x.0.to_string()).collect();
    names.extend(set_methods().iter().map(|x| x.0.to_string()));
    let mut found = 0;
    let files = [("/repo/src/map.rs", "HashMap", true), ("/repo/src/set.rs", "HashSet", true), ("/repo/src/map_ref.rs", "HashMapRef", false), ("/repo/src/set_ref.rs", "HashSetRef", false)];
    for (path, ty, need_guard) in files {
        let src = std::fs::read_to_string(path).map_err(|e| format!("{}: {}", path, e))?;
        let mut in_verif = false;
        let lines: Vec<&str> = src.lines().collect();
        for (i, line) in lines.iter().enumerate() {
            let t = line.trim_start();
            if t.starts_with("#[cfg(flurry_verif)]") || t.starts_with("#[cfg(test)]") {
                in_verif = true;
                continue;
            }
            let Some(rest) = t.strip_prefix("pub fn ") else {
                if !t.starts_with('#') && !t.starts_with("//") && !t.is_empty() {
                    in_verif = false;
                }
                continue;
            };
            if in_verif {
                in_verif = false;
                continue;
            }
            let fname: String = rest.chars().take_while(|c| c.is_alphanumeric() || *c == '_').collect();
            // signature may span lines: look ahead until the opening brace
            let mut sig = String::new();
            for l in lines.iter().skip(i).take(12) {
                sig.push_str(l);
                if l.contains('{') {
                    break;
                }
            }
            let takes_guard = sig.contains("Guard<");
            if need_guard && !takes_guard {
                continue;
            }
            if matches!(fname.as_str(), "pin" | "with_guard" | "guard" | "len" | "is_empty" | "new" | "with_capacity" | "with_hasher" | "with_capacity_and_hasher" | "with_collector") {
                continue;
            }
            if fname.starts_with("verif_") {
                continue;
            }
            found += 1;
            let want = format!("{}::{}", ty, fname);
            if !names.iter().any(|n| n == &want || n.starts_with(&format!("{}(", want))) {
                return Err(format!("public guard-taking method {} ({}:{}) is not in the C09 enumeration table", want, path, i + 1));
            }
        }
    }
    Ok(found)
}

fn detail_of(r: &CaseResult) -> String {
    format!(
        "{} accepted a guard of a foreign collector in state {:?}{}: {} pointer loads were protected by it, {} objects were retired into it{}",
        r.name,
        r.state,
        if r.stall > 0 { format!(" (writer stalled at its step {})", r.stall) } else { String::new() },
        r.foreign_loads,
        r.foreign_retires,
        if r.changed { ", and the map's contents changed" } else { "" }
    )
}

/// The same enumeration in the sibling binary that is built WITHOUT flurry's debug assertions
/// (profile `release-nda`): a rejection that only exists as a `debug_assert!` protects nobody in
/// a release build. Returns (cases, rejected, harmless, bad cases as (method, detail)).
fn enumerate_without_debug_assertions() -> Result<(u64, u64, u64, Vec<(String, String)>), String> {
    let me = std::env::current_exe().map_err(|e| e.to_string())?;
    let sib = me.parent().and_then(|p| p.parent()).map(|p| p.join("release-nda").join("flurry-sim")).ok_or("no sibling directory")?;
    if !sib.exists() {
        return Err(format!("{} is missing (./check builds it with `cargo build --profile release-nda`)", sib.display()));
    }
    let out = std::process::Command::new(&sib).arg("c09-child").output().map_err(|e| e.to_string())?;
    if !out.status.success() {
        return Err(format!("the release-nda enumeration exited with {:?}", out.status.code()));
    }
    let text = String::from_utf8_lossy(&out.stdout);
    let mut bad = Vec::new();
    let mut sum = None;
    for line in text.lines() {
        if let Some(rest) = line.strip_prefix("BAD\t") {
            if let Some((n, d)) = rest.split_once('\t') {
                bad.push((n.to_string(), format!("[flurry built without debug assertions] {}", d)));
            }
        } else if let Some(rest) = line.strip_prefix("SUMMARY ") {
            let f: Vec<u64> = rest.split_whitespace().filter_map(|x| x.parse().ok()).collect();
            if f.len() == 4 {
                sum = Some((f[0], f[1], f[2], f[3]));
            }
        }
    }
    match sum {
        Some((n, rej, harmless, dbg)) if dbg == 0 => Ok((n, rej, harmless, bad)),
        Some(_) => Err("the release-nda binary was built with flurry's debug assertions on".into()),
        None => Err("the release-nda enumeration printed no summary".into()),
    }
}

pub fn child_main() -> i32 {
    crate::install_crash_handler();
    sched::init();
    let results = enumerate();
    let mut rejected = 0;
    let mut harmless = 0;
    for r in &results {
        if r.verdict_err.is_some() {
            return 2;
        }
        let bad = !r.panicked && (r.foreign_loads > 0 || r.foreign_retires > 0 || r.changed);
        if r.panicked {
            rejected += 1;
        } else if !bad {
            harmless += 1;
        } else {
            println!("BAD\t{}\t{}", r.name, detail_of(r));
        }
    }
    println!("SUMMARY {} {} {} {}", results.len(), rejected, harmless, flurry::verif::debug_assertions_on() as u64);
    0
}

pub fn check(tier: &str) -> i32 {
    let t0 = std::time::Instant::now();
    crate::install_crash_handler();
    sched::init();
    let api = match crosscheck() {
        Ok(n) => n,
        Err(e) => {
            eprintln!("harness error: {}", e);
            return 2;
        }
    };
    let known = crate::orch::load_known();
    let results = enumerate();
    let mut violations: Vec<(String, String)> = Vec::new();
    let mut known_lines: Vec<String> = Vec::new();
    let mut samples = Vec::new();
    let mut nontrivial = std::collections::BTreeSet::new();
    let mut rejected = 0;
    let mut harmless = 0;
    for r in &results {
        if r.state != State::Unallocated {
            nontrivial.insert(format!("{}|{:?}|{}|{}", r.name, r.state, r.which, r.stall));
        }
        if let Some(e) = &r.verdict_err {
            eprintln!("harness error: scheduler verdict in C09 case {} {:?}: {}", r.name, r.state, e);
            return 2;
        }
        let bad = !r.panicked && (r.foreign_loads > 0 || r.foreign_retires > 0 || r.changed);
        if r.panicked {
            rejected += 1;
        } else if !bad {
            harmless += 1;
        }
        if samples.len() < 6 && (bad || samples.len() < 3) {
            samples.push(json!({"method": r.name, "state": format!("{:?}", r.state), "foreign_argument": r.which, "writer_stalled_at": r.stall, "panicked": r.panicked, "loads_through_foreign_guard": r.foreign_loads, "retires_with_foreign_guard": r.foreign_retires, "map_changed": r.changed}));
        }
        if bad {
            let detail = detail_of(r);
            let v = crate::oracle::Violation { class: "foreign-guard-accepted".into(), detail: detail.clone() };
            match crate::orch::match_known(&known, "C09", &v) {
                Some(k) => {
                    let line = format!("KNOWN-FINDING: property=C09 class={} {}", k.class, k.text);
                    if !known_lines.contains(&line) {
                        known_lines.push(line);
                    }
                }
                None => violations.push((r.name.clone(), detail)),
            }
        }
    }
    let (nda_cases, nda_rejected, nda_harmless) = match enumerate_without_debug_assertions() {
        Ok((n, rej, h, bad)) => {
            for (name, detail) in bad {
                let v = crate::oracle::Violation { class: "foreign-guard-accepted".into(), detail: detail.clone() };
                match crate::orch::match_known(&known, "C09", &v) {
                    Some(k) => {
                        let line = format!("KNOWN-FINDING: property=C09 class={} {}", k.class, k.text);
                        if !known_lines.contains(&line) {
                            known_lines.push(line);
                        }
                    }
                    None => violations.push((name, detail)),
                }
            }
            (n, rej, h)
        }
        Err(e) => {
            eprintln!("harness error: {}", e);
            return 2;
        }
    };
    for l in &known_lines {
        println!("{}", l);
    }
    let wall = t0.elapsed().as_secs_f64();
    let ev = json!({
        "property_id": "C09", "tier": tier, "seed": crate::orch::base_seed(), "level": "fault_enumeration", "wall_s": wall, "violations": violations.len(),
        "coverage": {
            "evaluations": results.len() as u64 + nda_cases,
            "distinct_nontrivial": nontrivial.len(),
            "exhaustive": true,
            "rule": "one evaluation = one (public guard-taking method, structural state, which guard argument is foreign, stall point of the concurrent resizer) case executed on the real code as a simulated thread with the pointer seam recording the collector of every guard used; the table of methods is cross-checked against the pub fns in src/{map,set,map_ref,set_ref}.rs at start-up; non-trivial = the map is allocated (the call has memory to read); distinct = distinct case tuples",
            "samples": samples,
            "public_methods_found_in_sources": api,
            "methods_in_table": map_methods().len() + set_methods().len(),
            "structural_states": STATES.iter().map(|s| format!("{:?}", s)).collect::<Vec<_>>(),
            "calls_rejected_by_panic": rejected,
            "second_pass_without_flurry_debug_assertions": {"cases": nda_cases, "calls_rejected_by_panic": nda_rejected, "calls_that_returned_without_touching_memory_through_the_foreign_guard": nda_harmless},
            "calls_that_returned_without_touching_memory_through_the_foreign_guard": harmless,
            "faults": {"foreign_guard": {"fired": results.len()}, "stall": {"fired": results.iter().filter(|r| r.stall > 0).count()}},
            "known_findings_hit": known_lines,
            "components": {"real": ["flurry", "seize 0.3.3", "parking_lot"], "stubbed": ["OS scheduling (baton scheduler)", "park/unpark", "num_cpus"]}
        },
        "assumptions": ["the pointer seam sees every Atomic::load and retire_shared (one choke point in src/reclaim.rs)", "swap/compare_exchange take the guard only as a lifetime witness and are not attributed"]
    });
    let _ = std::fs::create_dir_all(format!("{}/evidence", crate::orch::verif_dir()));
    let _ = std::fs::write(format!("{}/evidence/C09.json", crate::orch::verif_dir()), serde_json::to_string_pretty(&ev).unwrap());
    println!("C09: {} cases ({} methods x states x foreign-argument positions x stall points), {} rejected by panic, {} returned without using the foreign guard, {} violations", results.len(), map_methods().len() + set_methods().len(), rejected, harmless, violations.len());
    if violations.is_empty() {
        println!("OK property=C09 held on everything explored");
        return 0;
    }
    let dir = format!("{}/replays", crate::orch::verif_dir());
    let _ = std::fs::create_dir_all(&dir);
    let path = format!("{}/C09-foreign-guard-accepted.json", dir);
    let rep: Value = json!({"format": "flurry-sim-c09-1", "property": "C09", "class": "foreign-guard-accepted",
        "cases": violations.iter().map(|(n, d)| json!({"method": n, "detail": d})).collect::<Vec<_>>(),
        "how_to_replay": "./check replay <this file> re-runs the complete enumeration (it is deterministic) and exits 1 if any listed method still accepts a foreign guard"});
    let _ = std::fs::write(&path, serde_json::to_string_pretty(&rep).unwrap());
    for (_, d) in violations.iter().take(12) {
        println!("{}", d);
    }
    println!("VIOLATION property=C09 replay={}", path);
    1
}

pub fn replay(v: &Value) -> i32 {
    crate::install_crash_handler();
    sched::init();
    let want: Vec<String> = v["cases"].as_array().map(|a| a.iter().filter_map(|c| c["method"].as_str().map(|s| s.to_string())).collect()).unwrap_or_default();
    let results = enumerate();
    let mut hit = 0;
    for r in &results {
        let bad = !r.panicked && (r.foreign_loads > 0 || r.foreign_retires > 0 || r.changed);
        if bad && want.contains(&r.name) {
            hit += 1;
            if hit <= 5 {
                println!("REPRODUCED property=C09 class=foreign-guard-accepted {} in state {:?}", r.name, r.state);
            }
        }
    }
    if let Ok((_, _, _, bad)) = enumerate_without_debug_assertions() {
        for (name, _) in bad {
            if want.contains(&name) {
                hit += 1;
                if hit <= 5 {
                    println!("REPRODUCED property=C09 class=foreign-guard-accepted {} (flurry built without debug assertions)", name);
                }
            }
        }
    }
    if hit > 0 {
        1
    } else {
        println!("NOT-REPRODUCED property=C09");
        0
    }
}
