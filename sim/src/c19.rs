//! C19, serde half: flurry's Serialize/Deserialize impls driven through serde_json over byte
//! streams the harness owns. The streams are the fault seam: short reads and writes,
//! `Interrupted`, a hard I/O error or an end-of-file at a chosen byte offset. The documents are
//! generated (small key alphabet, repeated keys, every hash function of the simulator) - that
//! part is plain seeded input generation and is called that in DESIGN.md; there is no schedule
//! in this half. The rayon half of C19 runs on the simulator proper (`par.rs`).
//!
//! Oracles: a round trip without a biting fault yields an equal collection; a document without a
//! biting fault yields exactly the distinct keys supplied, each with one of the values supplied
//! for it (or, for a repeated key only, an error); a biting fault yields an error; nothing ever
//! panics; every key and value instance created on the way is dropped exactly once, also on the
//! error paths (instance ledger), and no freed block is touched (quarantine allocator).

use crate::rng::Rng;
use crate::types::{ledger_reset, HashKind, Key, KeyQ, SimBuild, Val, DEFAULT_HASH, LEDGER};
use serde_json::{json, Value};
use std::collections::BTreeMap;
use std::io::{self, Read, Write};

type PMap = flurry::HashMap<Key, Val, SimBuild>;
type PSet = flurry::HashSet<Key, SimBuild>;

#[derive(Clone, Debug, PartialEq)]
pub enum Fail {
    None,
    /// hard error once this many bytes have gone through
    Error(usize),
    /// end of file (reader) / `Ok(0)` (writer) once this many bytes have gone through
    Eof(usize),
}

#[derive(Clone, Debug, PartialEq)]
pub struct StreamPlan {
    /// bytes accepted per call, cycled; 0 = this call fails with `ErrorKind::Interrupted`
    pub chunks: Vec<usize>,
    pub fail: Fail,
}

impl StreamPlan {
    fn clean() -> StreamPlan {
        StreamPlan { chunks: vec![usize::MAX], fail: Fail::None }
    }
    fn to_json(&self) -> Value {
        let f = match &self.fail {
            Fail::None => json!(null),
            Fail::Error(n) => json!(["error", n]),
            Fail::Eof(n) => json!(["eof", n]),
        };
        json!({"chunks": self.chunks.iter().map(|&c| if c == usize::MAX { json!("all") } else { json!(c) }).collect::<Vec<_>>(), "fail": f})
    }
    fn from_json(v: &Value) -> Option<StreamPlan> {
        let chunks = v.get("chunks")?.as_array()?.iter().map(|c| c.as_u64().map(|x| x as usize).unwrap_or(usize::MAX)).collect();
        let fail = match v.get("fail")? {
            Value::Null => Fail::None,
            f => {
                let a = f.as_array()?;
                let n = a.get(1)?.as_u64()? as usize;
                match a.first()?.as_str()? {
                    "error" => Fail::Error(n),
                    _ => Fail::Eof(n),
                }
            }
        };
        Some(StreamPlan { chunks, fail })
    }
}

#[derive(Default, Clone, Copy)]
pub struct Fired {
    pub short: u64,
    pub interrupted: u64,
    pub error: u64,
    pub eof: u64,
}

struct FaultyReader<'a> {
    data: &'a [u8],
    pos: usize,
    plan: &'a StreamPlan,
    call: usize,
    fired: Fired,
}

impl Read for FaultyReader<'_> {
    fn read(&mut self, buf: &mut [u8]) -> io::Result<usize> {
        let mut limit = self.data.len();
        match self.plan.fail {
            Fail::Error(n) if self.pos >= n => {
                self.fired.error += 1;
                return Err(io::Error::new(io::ErrorKind::Other, "injected read error"));
            }
            Fail::Eof(n) if self.pos >= n => {
                if n < self.data.len() {
                    self.fired.eof += 1;
                }
                return Ok(0);
            }
            Fail::Error(n) | Fail::Eof(n) => limit = limit.min(n),
            Fail::None => {}
        }
        let c = self.plan.chunks[self.call % self.plan.chunks.len()];
        self.call += 1;
        if c == 0 {
            self.fired.interrupted += 1;
            return Err(io::Error::new(io::ErrorKind::Interrupted, "injected EINTR"));
        }
        let n = c.min(buf.len()).min(limit - self.pos);
        if n < buf.len().min(limit - self.pos) {
            self.fired.short += 1;
        }
        buf[..n].copy_from_slice(&self.data[self.pos..self.pos + n]);
        self.pos += n;
        Ok(n)
    }
}

struct FaultyWriter<'a> {
    out: Vec<u8>,
    plan: &'a StreamPlan,
    call: usize,
    fired: Fired,
}

impl Write for FaultyWriter<'_> {
    fn write(&mut self, buf: &[u8]) -> io::Result<usize> {
        let mut room = usize::MAX;
        match self.plan.fail {
            Fail::Error(n) if self.out.len() >= n => {
                self.fired.error += 1;
                return Err(io::Error::new(io::ErrorKind::Other, "injected write error (disk full)"));
            }
            Fail::Eof(n) if self.out.len() >= n => {
                self.fired.eof += 1;
                return Ok(0);
            }
            Fail::Error(n) | Fail::Eof(n) => room = n - self.out.len(),
            Fail::None => {}
        }
        let c = self.plan.chunks[self.call % self.plan.chunks.len()];
        self.call += 1;
        if c == 0 {
            self.fired.interrupted += 1;
            return Err(io::Error::new(io::ErrorKind::Interrupted, "injected EINTR"));
        }
        let n = c.min(buf.len()).min(room);
        if n < buf.len() {
            self.fired.short += 1;
        }
        self.out.extend_from_slice(&buf[..n]);
        Ok(n)
    }
    fn flush(&mut self) -> io::Result<()> {
        Ok(())
    }
}

#[derive(Clone, Debug, PartialEq)]
pub struct Case {
    pub set: bool,
    pub hash: HashKind,
    pub capacity: u32,
    /// (key, value id) in document order; keys may repeat
    pub entries: Vec<(u32, u32)>,
    /// true: build the collection, serialise it, read the result back;
    /// false: the entries are written out as a JSON document by hand (repeats kept)
    pub round_trip: bool,
    /// serialise through the pinned reference type
    pub via_ref: bool,
    /// 0 = from_reader, 1 = from_slice, 2 = from_str (the last two have no stream to fault),
    /// 3 = a non-text deserializer that hands the entries over directly and announces a length
    /// (`size_hint`), which serde documents as advisory: exact, absent, too small or too large
    pub api: u8,
    pub hint: Option<u32>,
    pub wplan: StreamPlan,
    pub rplan: StreamPlan,
}

impl Case {
    pub fn to_json(&self) -> Value {
        json!({
            "set": self.set, "hash": self.hash.name(), "capacity": self.capacity,
            "entries": self.entries.iter().map(|(k, v)| json!([k, v])).collect::<Vec<_>>(),
            "round_trip": self.round_trip, "via_ref": self.via_ref, "api": self.api, "hint": self.hint,
            "write_plan": self.wplan.to_json(), "read_plan": self.rplan.to_json(),
        })
    }
    pub fn from_json(v: &Value) -> Option<Case> {
        Some(Case {
            set: v.get("set")?.as_bool()?,
            hash: HashKind::parse(v.get("hash")?.as_str()?)?,
            capacity: v.get("capacity")?.as_u64()? as u32,
            entries: v.get("entries")?.as_array()?.iter().map(|p| Some((p.get(0)?.as_u64()? as u32, p.get(1)?.as_u64()? as u32))).collect::<Option<Vec<_>>>()?,
            round_trip: v.get("round_trip")?.as_bool()?,
            via_ref: v.get("via_ref")?.as_bool()?,
            api: v.get("api")?.as_u64()? as u8,
            hint: v.get("hint").and_then(|x| x.as_u64()).map(|x| x as u32),
            wplan: StreamPlan::from_json(v.get("write_plan")?)?,
            rplan: StreamPlan::from_json(v.get("read_plan")?)?,
        })
    }
    fn has_repeats(&self) -> bool {
        let mut seen = std::collections::BTreeSet::new();
        self.entries.iter().any(|(k, _)| !seen.insert(*k))
    }
}

fn gen_plan(rng: &mut Rng, len_hint: usize) -> StreamPlan {
    let chunks = match rng.below(5) {
        0 | 1 => vec![usize::MAX],
        2 => vec![1],
        3 => (0..rng.range(1, 4)).map(|_| rng.range(1, 7) as usize).collect(),
        _ => {
            // short transfers with EINTR in between (never only EINTR: progress is guaranteed)
            let mut c: Vec<usize> = (0..rng.range(2, 5)).map(|_| rng.below(6) as usize).collect();
            c.push(rng.range(1, 9) as usize);
            c
        }
    };
    let fail = match rng.below(6) {
        0 => Fail::Error(rng.below(len_hint as u64 + 2) as usize),
        1 => Fail::Eof(rng.below(len_hint as u64 + 2) as usize),
        _ => Fail::None,
    };
    StreamPlan { chunks, fail }
}

pub fn gen_case(seed: u64) -> Case {
    let mut rng = Rng::new(seed ^ 0xC19);
    let set = rng.chance(1, 3);
    let hash = match rng.below(7) {
        0 => HashKind::Uniform(rng.below(1000)),
        1 => HashKind::Const,
        2 => HashKind::SameBin,
        3 => HashKind::HighBits,
        4 => HashKind::Identity,
        5 => HashKind::Mod(rng.range(1, 4) as u32),
        _ => HashKind::Split(rng.range(1, 3) as u32),
    };
    let n = *rng.pick(&[0u64, 1, 2, 3, 5, 8, 11, 12, 13, 20, 40]);
    let alphabet = *rng.pick(&[3u64, 8, 24, 64]);
    let repeats = rng.chance(1, 2);
    let mut entries: Vec<(u32, u32)> = Vec::new();
    let mut used = std::collections::BTreeSet::new();
    for i in 0..n {
        let mut k = rng.below(alphabet) as u32;
        if !repeats {
            // distinct keys: probe forward
            while used.contains(&k) {
                k += 1;
            }
        }
        used.insert(k);
        entries.push((k, 100 + i as u32));
    }
    let round_trip = rng.chance(1, 2);
    // a rough length of the document, to aim the failure offsets inside it most of the time
    let len_hint = 2 + entries.len() * 9;
    let mut wplan = if round_trip { gen_plan(&mut rng, len_hint) } else { StreamPlan::clean() };
    let api = if round_trip { *rng.pick(&[0u8, 0, 0, 1, 2]) } else { *rng.pick(&[0u8, 0, 0, 1, 2, 3, 3]) };
    let hint = match rng.below(5) {
        0 => None,
        1 => Some(0),
        2 => Some(entries.len() as u32 + rng.range(1, 40) as u32),
        _ => Some(entries.len() as u32),
    };
    let mut rplan = if api == 0 { gen_plan(&mut rng, len_hint) } else { StreamPlan::clean() };
    if rng.chance(1, 3) {
        // fault-free configuration, so that the relaxations for faults hide no ordinary bug
        wplan = StreamPlan::clean();
        rplan = StreamPlan::clean();
    }
    Case { set, hash, capacity: *rng.pick(&[0u32, 0, 1, 16, 50]), entries, round_trip, via_ref: rng.chance(1, 2), api, hint, wplan, rplan }
}

fn document(c: &Case) -> String {
    let mut s = String::new();
    if c.set {
        s.push('[');
        for (i, (k, _)) in c.entries.iter().enumerate() {
            if i > 0 {
                s.push(',');
            }
            s.push_str(&k.to_string());
        }
        s.push(']');
    } else {
        s.push('{');
        for (i, (k, v)) in c.entries.iter().enumerate() {
            if i > 0 {
                s.push(',');
            }
            s.push_str(&format!("\"{}\":{}", k, v));
        }
        s.push('}');
    }
    s
}

/// A self-describing deserializer over the entries themselves (what a binary format does):
/// announces `hint` as the length.
struct Hinted<'a> {
    entries: &'a [(u32, u32)],
    hint: Option<usize>,
    set: bool,
}

struct HintedAccess<'a> {
    entries: &'a [(u32, u32)],
    pos: usize,
    hint: Option<usize>,
}

type VErr = serde::de::value::Error;

impl<'de> serde::Deserializer<'de> for Hinted<'_> {
    type Error = VErr;
    fn deserialize_any<V: serde::de::Visitor<'de>>(self, visitor: V) -> Result<V::Value, VErr> {
        let acc = HintedAccess { entries: self.entries, pos: 0, hint: self.hint };
        if self.set {
            visitor.visit_seq(acc)
        } else {
            visitor.visit_map(acc)
        }
    }
    serde::forward_to_deserialize_any! {
        bool i8 i16 i32 i64 i128 u8 u16 u32 u64 u128 f32 f64 char str string bytes byte_buf option unit
        unit_struct newtype_struct seq tuple tuple_struct map struct enum identifier ignored_any
    }
}

impl<'de> serde::de::MapAccess<'de> for HintedAccess<'_> {
    type Error = VErr;
    fn next_key_seed<K: serde::de::DeserializeSeed<'de>>(&mut self, seed: K) -> Result<Option<K::Value>, VErr> {
        use serde::de::IntoDeserializer;
        match self.entries.get(self.pos) {
            Some((k, _)) => seed.deserialize((*k).into_deserializer()).map(Some),
            None => Ok(None),
        }
    }
    fn next_value_seed<V: serde::de::DeserializeSeed<'de>>(&mut self, seed: V) -> Result<V::Value, VErr> {
        use serde::de::IntoDeserializer;
        let v = self.entries[self.pos].1;
        self.pos += 1;
        seed.deserialize(v.into_deserializer())
    }
    fn size_hint(&self) -> Option<usize> {
        self.hint
    }
}

impl<'de> serde::de::SeqAccess<'de> for HintedAccess<'_> {
    type Error = VErr;
    fn next_element_seed<T: serde::de::DeserializeSeed<'de>>(&mut self, seed: T) -> Result<Option<T::Value>, VErr> {
        use serde::de::IntoDeserializer;
        match self.entries.get(self.pos) {
            Some((k, _)) => {
                self.pos += 1;
                seed.deserialize((*k).into_deserializer()).map(Some)
            }
            None => Ok(None),
        }
    }
    fn size_hint(&self) -> Option<usize> {
        self.hint
    }
}

#[derive(Default)]
pub struct CaseStats {
    pub fired: Fired,
    pub wrote_bytes: u64,
    pub read_ok: bool,
    pub read_err: bool,
    pub write_err: bool,
    pub repeated: bool,
}

fn add(a: &mut Fired, b: Fired) {
    a.short += b.short;
    a.interrupted += b.interrupted;
    a.error += b.error;
    a.eof += b.eof;
}

/// What the supplied entries amount to when inserted one after the other.
fn sequential(c: &Case) -> BTreeMap<u32, Vec<u32>> {
    let mut m: BTreeMap<u32, Vec<u32>> = BTreeMap::new();
    for (k, v) in &c.entries {
        m.entry(*k).or_default().push(*v);
    }
    m
}

/// Runs one case; `Err` is a violation.
pub fn run_case(c: &Case, st: &mut CaseStats) -> Result<(), String> {
    DEFAULT_HASH.with(|h| h.set(c.hash));
    ledger_reset(false);
    crate::alloc::begin();
    let r = std::panic::catch_unwind(std::panic::AssertUnwindSafe(|| case_body(c, st)));
    let rep = crate::alloc::end();
    let res = match r {
        Ok(r) => r,
        Err(p) => Err(format!("panicked: {}", if let Some(s) = p.downcast_ref::<&str>() { s.to_string() } else if let Some(s) = p.downcast_ref::<String>() { s.clone() } else { "non-string panic".into() })),
    };
    res?;
    if rep.double_free > 0 || !rep.damaged.is_empty() {
        return Err(format!("memory: {} double frees, {} freed blocks written to", rep.double_free, rep.damaged.len()));
    }
    let l = LEDGER.lock().unwrap();
    if let Some(v) = l.violations.first() {
        return Err(format!("instance ledger: {}", v));
    }
    for (i, inst) in l.insts.iter().enumerate() {
        if inst.drops != 1 {
            return Err(format!(
                "{} instance {} (logical {}) was dropped {} times by the time the collections and the error values were gone (leak on an error path?)",
                if inst.is_key { "key" } else { "value" },
                i,
                inst.logical,
                inst.drops
            ));
        }
    }
    Ok(())
}

fn case_body(c: &Case, st: &mut CaseStats) -> Result<(), String> {
    let want = sequential(c);
    st.repeated = c.has_repeats();
    // 1. the text to read
    let text: Vec<u8> = if c.round_trip {
        let mut w = FaultyWriter { out: Vec::new(), plan: &c.wplan, call: 0, fired: Fired::default() };
        let res = if c.set {
            let s = PSet::with_capacity_and_hasher(c.capacity as usize, SimBuild(c.hash));
            {
                let g = s.guard();
                for (k, _) in &c.entries {
                    s.insert(Key::new(*k), &g);
                }
            }
            if c.via_ref { serde_json::to_writer(&mut w, &s.pin()) } else { serde_json::to_writer(&mut w, &s) }
        } else {
            let m = PMap::with_capacity_and_hasher(c.capacity as usize, SimBuild(c.hash));
            {
                let g = m.guard();
                for (k, v) in &c.entries {
                    m.insert(Key::new(*k), Val::new(*v), &g);
                }
            }
            if c.via_ref { serde_json::to_writer(&mut w, &m.pin()) } else { serde_json::to_writer(&mut w, &m) }
        };
        add(&mut st.fired, w.fired);
        st.wrote_bytes += w.out.len() as u64;
        let bit = w.fired.error + w.fired.eof > 0;
        match res {
            Ok(()) if bit => return Err("serialisation reported success although the writer failed".into()),
            Ok(()) => w.out,
            Err(_) if bit => {
                st.write_err = true;
                return Ok(()); // a failed write is an error, nothing more to read
            }
            Err(e) => return Err(format!("serialisation failed without an injected hard fault: {}", e)),
        }
    } else {
        document(c).into_bytes()
    };

    // 2. read it
    let mut fired = Fired::default();
    enum Got {
        Map(PMap),
        Set(PSet),
    }
    let res: Result<Got, serde_json::Error> = match (c.api, c.set) {
        (0, false) => {
            let mut r = FaultyReader { data: &text, pos: 0, plan: &c.rplan, call: 0, fired: Fired::default() };
            let x = serde_json::from_reader::<_, PMap>(&mut r).map(Got::Map);
            fired = r.fired;
            x
        }
        (0, true) => {
            let mut r = FaultyReader { data: &text, pos: 0, plan: &c.rplan, call: 0, fired: Fired::default() };
            let x = serde_json::from_reader::<_, PSet>(&mut r).map(Got::Set);
            fired = r.fired;
            x
        }
        (3, false) => {
            use serde::Deserialize;
            match PMap::deserialize(Hinted { entries: &c.entries, hint: c.hint.map(|h| h as usize), set: false }) {
                Ok(m) => Ok(Got::Map(m)),
                Err(e) => return Err(format!("the hinted deserializer (hint {:?}) failed: {}", c.hint, e)),
            }
        }
        (3, true) => {
            use serde::Deserialize;
            match PSet::deserialize(Hinted { entries: &c.entries, hint: c.hint.map(|h| h as usize), set: true }) {
                Ok(m) => Ok(Got::Set(m)),
                Err(e) => return Err(format!("the hinted deserializer (hint {:?}) failed: {}", c.hint, e)),
            }
        }
        (1, false) => serde_json::from_slice::<PMap>(&text).map(Got::Map),
        (1, true) => serde_json::from_slice::<PSet>(&text).map(Got::Set),
        (_, false) => serde_json::from_str::<PMap>(std::str::from_utf8(&text).unwrap()).map(Got::Map),
        (_, true) => serde_json::from_str::<PSet>(std::str::from_utf8(&text).unwrap()).map(Got::Set),
    };
    add(&mut st.fired, fired);
    let bit = fired.error + fired.eof > 0;
    let got = match res {
        Err(e) => {
            st.read_err = true;
            if bit {
                return Ok(());
            }
            if !c.round_trip && c.has_repeats() && !c.set {
                // rejecting a document that repeats a key is within the property
                return Ok(());
            }
            return Err(format!("deserialising {:?} failed without an injected hard fault: {}", String::from_utf8_lossy(&text), e));
        }
        Ok(g) => g,
    };
    st.read_ok = true;
    if bit {
        return Err(format!("deserialisation returned a value although the stream failed before the end of {:?}", String::from_utf8_lossy(&text)));
    }
    // 3. judge the contents
    match got {
        Got::Map(m) => {
            let g = m.guard();
            let mut keys: Vec<u32> = m.iter(&g).map(|(k, _)| k.k).collect();
            keys.sort_unstable();
            let want_keys: Vec<u32> = want.keys().copied().collect();
            if keys != want_keys {
                return Err(format!("reading {:?} yields keys {:?}, sequential insertion yields {:?}", String::from_utf8_lossy(&text), keys, want_keys));
            }
            if m.len() != keys.len() {
                return Err(format!("len() = {} but {} entries", m.len(), keys.len()));
            }
            for (k, vs) in &want {
                let v = m.get(&KeyQ(*k), &g).map(|v| v.id);
                let ok = if c.round_trip { v == vs.last().copied() } else { v.map(|v| vs.contains(&v)).unwrap_or(false) };
                if !ok {
                    return Err(format!("reading {:?}: key {} is mapped to {:?}, supplied values were {:?}", String::from_utf8_lossy(&text), k, v, vs));
                }
            }
            if c.round_trip {
                // "yields an equal collection", by the collection's own PartialEq
                let orig = PMap::with_hasher(SimBuild(c.hash));
                {
                    let og = orig.guard();
                    for (k, v) in &c.entries {
                        orig.insert(Key::new(*k), Val::new(*v), &og);
                    }
                }
                if orig != m {
                    return Err("the round-tripped map is not == the original".into());
                }
            }
        }
        Got::Set(s) => {
            let g = s.guard();
            let mut keys: Vec<u32> = s.iter(&g).map(|k| k.k).collect();
            keys.sort_unstable();
            let want_keys: Vec<u32> = want.keys().copied().collect();
            if keys != want_keys {
                return Err(format!("reading {:?} yields {:?}, sequential insertion yields {:?}", String::from_utf8_lossy(&text), keys, want_keys));
            }
            if s.len() != keys.len() {
                return Err(format!("len() = {} but {} elements", s.len(), keys.len()));
            }
            for k in &want_keys {
                if !s.contains(&KeyQ(*k), &g) {
                    return Err(format!("element {} is iterated but not found", k));
                }
            }
            if c.round_trip {
                let orig = PSet::with_hasher(SimBuild(c.hash));
                {
                    let og = orig.guard();
                    for (k, _) in &c.entries {
                        orig.insert(Key::new(*k), &og);
                    }
                }
                if orig != s {
                    return Err("the round-tripped set is not == the original".into());
                }
            }
        }
    }
    Ok(())
}

/// Greedy shrink: drop entries, then simplify the stream plans, while the case still fails.
pub fn minimise(c: &Case) -> Case {
    let fails = |c: &Case| run_case(c, &mut CaseStats::default()).is_err();
    let mut cur = c.clone();
    loop {
        let mut progress = false;
        let mut i = 0;
        while i < cur.entries.len() {
            let mut t = cur.clone();
            t.entries.remove(i);
            if fails(&t) {
                cur = t;
                progress = true;
            } else {
                i += 1;
            }
        }
        for which in 0..5 {
            let mut t = cur.clone();
            match which {
                0 => t.wplan = StreamPlan::clean(),
                1 => t.rplan = StreamPlan::clean(),
                2 => t.capacity = 0,
                3 => t.hint = Some(t.entries.len() as u32),
                _ => t.hash = HashKind::Identity,
            }
            if t != cur && fails(&t) {
                cur = t;
                progress = true;
            }
        }
        if !progress {
            return cur;
        }
    }
}

#[derive(Default)]
pub struct SerdeStats {
    pub cases: u64,
    pub round_trips: u64,
    pub documents: u64,
    pub with_repeats: u64,
    pub fault_free: u64,
    pub hinted: u64,
    pub wrong_hints: u64,
    pub fired: Fired,
    pub read_ok: u64,
    pub read_err: u64,
    pub write_err: u64,
    pub bytes: u64,
    pub samples: Vec<String>,
}

/// All cases of a tier. Returns the violations as (case seed, message, minimised case).
pub fn run(tier: &str, seed: u64) -> (Vec<(u64, String, Case)>, SerdeStats) {
    let n: u64 = if tier == "thorough" { 600_000 } else { 30_000 };
    let mut st = SerdeStats::default();
    let mut viol = Vec::new();
    let prev = std::panic::take_hook();
    std::panic::set_hook(Box::new(|_| {}));
    for i in 0..n {
        let cs = seed ^ i.wrapping_mul(0x9E37_79B9_7F4A_7C15) ^ 0xC19_5E4D;
        let c = gen_case(cs);
        let mut s = CaseStats::default();
        let r = run_case(&c, &mut s);
        st.cases += 1;
        if c.round_trip {
            st.round_trips += 1;
        } else {
            st.documents += 1;
        }
        if s.repeated {
            st.with_repeats += 1;
        }
        if c.api == 3 {
            st.hinted += 1;
            if c.hint != Some(c.entries.len() as u32) {
                st.wrong_hints += 1;
            }
        }
        if c.wplan == StreamPlan::clean() && c.rplan == StreamPlan::clean() {
            st.fault_free += 1;
        }
        add(&mut st.fired, s.fired);
        st.read_ok += s.read_ok as u64;
        st.read_err += s.read_err as u64;
        st.write_err += s.write_err as u64;
        st.bytes += s.wrote_bytes;
        if st.samples.len() < 2 && c.entries.len() > 2 && c.entries.len() < 9 && c.rplan.fail != Fail::None {
            st.samples.push(c.to_json().to_string());
        }
        if let Err(e) = r {
            if viol.len() < 8 {
                let m = minimise(&c);
                let e2 = run_case(&m, &mut CaseStats::default()).err().unwrap_or(e);
                viol.push((cs, e2, m));
            }
            if viol.len() >= 8 {
                break;
            }
        }
    }
    std::panic::set_hook(prev);
    (viol, st)
}

pub fn replay(v: &Value) -> Option<Result<(), String>> {
    let c = Case::from_json(v.get("case")?)?;
    let prev = std::panic::take_hook();
    std::panic::set_hook(Box::new(|_| {}));
    let r = run_case(&c, &mut CaseStats::default());
    std::panic::set_hook(prev);
    Some(r)
}
