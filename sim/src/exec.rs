//! Executes a `Program` on the real flurry code under the deterministic scheduler and records
//! everything the oracles need: the invoke/return history, guard intervals, site events, the
//! instance ledger, allocator report and the quiescent state.

use crate::alloc;
use crate::program::*;
use crate::sched::{self, RunOutcome, RunSetup};
use crate::types::*;
use flurry::Guard;
use std::sync::atomic::{AtomicU64, Ordering as AO};
use std::sync::Mutex;

#[derive(Clone, Debug, PartialEq, Eq)]
pub struct PredRec {
    pub k: u32,
    pub kinst: u32,
    pub vid: u32,
    pub keep: bool,
    pub clock: u64,
}

#[derive(Clone, Debug, PartialEq, Eq)]
pub struct Item {
    pub k: u32,
    pub kinst: u32,
    pub vid: u32,
    pub clock: u64,
}

#[derive(Clone, Debug, PartialEq, Eq)]
pub enum Res {
    Unit,
    /// value id
    Opt(Option<u32>),
    Bool(bool),
    /// (key instance, value id)
    KV(Option<(u32, u32)>),
    TryOk,
    /// current value id; whether the refused value came back intact
    TryErr { cur: u32, back_ok: bool },
    Compute {
        calls: u32,
        saw: Option<u32>,
        saw_n: u64,
        ret: Option<u32>,
        ret_n: u64,
        call_clock: u64,
    },
    Retain(Vec<PredRec>),
    /// a retain whose callback panicked: verdicts logged before the panic, panic message
    RetainPanic(Vec<PredRec>, String),
    Items { items: Vec<Item>, done: bool },
    Len(usize),
    Panic(String),
}

#[derive(Clone, Debug)]
pub struct OpRec {
    pub thread: u8,
    pub idx: u16,
    pub op: Op,
    pub inv: u64,
    pub ret: u64,
    pub res: Res,
    /// instance id of the key object this operation passed into the map (NONE otherwise)
    pub new_kinst: u32,
}

#[derive(Clone, Copy, Debug)]
pub struct GuardInterval {
    pub thread: u8,
    pub enter: u64,
    pub exit: u64,
}

/// The map of the run in progress, for the retirement probe called from the scheduler's event hook.
static RETIRE_PROBE: Mutex<Option<(usize, Vec<String>, u64)>> = Mutex::new(None);

/// Called (with the seams suppressed) whenever flurry is about to retire the object at `addr`.
pub fn retire_probe(addr: usize) {
    let tgt_ptr = match RETIRE_PROBE.lock().unwrap().as_ref() {
        Some((p, _, _)) => *p,
        None => return,
    };
    // safety: the pointer is registered for exactly the duration of sched::run in `execute`
    let tgt: &Tgt = unsafe { &*(tgt_ptr as *const Tgt) };
    fn look<V>(d: &flurry::map_verif::Dump<'_, Key, V>, addr: usize) -> (bool, String, bool) {
        let r = crate::inspect::reachable_addresses(d);
        if !r.contains(&addr) {
            return (false, String::new(), false);
        }
        let w = crate::inspect::describe_address(d, addr);
        // the hand-over window of a bin migration: the new bins are already stored in the table
        // under construction, the old bin is not yet replaced by the forwarding marker, and the
        // two share nodes and values
        let only_old = d.next.is_some() && !w.contains("table under construction");
        (true, w, only_old)
    }
    let (reachable, whence, only_via_old_table) = match tgt {
        Tgt::Map(m) => {
            let g = m.guard();
            look(&m.verif_dump(&g), addr)
        }
        Tgt::Set(s) => {
            let g = s.guard();
            look(&s.verif_map().verif_dump(&g), addr)
        }
    };
    let opname = CUR_OP.with(|c| c.get());
    let mut pr = RETIRE_PROBE.lock().unwrap();
    if let Some((_, errs, n)) = pr.as_mut() {
        *n += 1;
        if reachable && errs.len() < 4 {
            let how = if opname == "clear" && only_via_old_table {
                "retired by clear() while a resize is in flight: clear was sweeping the table under construction, where it had already unlinked the object, but the not yet forwarded bin of the current table still shares it".to_string()
            } else {
                format!("retired by {}()", opname)
            };
            let msg = format!(
                "at clock {} thread {:?} retired an object that is still reachable from the map ({}; {}); a reader that pins a guard after this instant can still find it, and seize no longer counts that reader",
                sched::now(),
                sched::sim_id(),
                how,
                whence
            );
            if std::env::var("VERIF_RETIRE_TRACE").is_ok() {
                // (a crash later in the run would take the report with it)
                eprintln!("RETIRE {}", msg);
            }
            errs.push(msg);
        }
    }
}

thread_local! {
    /// name of the operation the calling simulated thread is executing (for diagnostics)
    static CUR_OP: std::cell::Cell<&'static str> = const { std::cell::Cell::new("") };
}

fn op_name(op: &Op) -> &'static str {
    match op {
        Op::Get(_) => "get",
        Op::Contains(_) => "contains_key",
        Op::GetKV(_) => "get_key_value",
        Op::Insert(..) => "insert",
        Op::TryInsert(..) => "try_insert",
        Op::Remove(_) => "remove",
        Op::RemoveEntry(_) => "remove_entry",
        Op::Compute(..) => "compute_if_present",
        Op::Retain(_) => "retain",
        Op::RetainForce(_) => "retain_force",
        Op::Clear => "clear",
        Op::Reserve(_) => "reserve",
        Op::Extend(_) => "extend",
        Op::ParExtend(..) => "par_extend",
        Op::Collect(..) => "collect",
        _ => "other",
    }
}

thread_local! {
    /// operations a callback performed on the collection it is being called from
    static NESTED: std::cell::RefCell<Vec<OpRec>> = const { std::cell::RefCell::new(Vec::new()) };
}

thread_local! {
    /// verdicts of the retain callbacks of the operation in flight (survives a panicking callback)
    static CB_LOG: std::cell::RefCell<Vec<PredRec>> = const { std::cell::RefCell::new(Vec::new()) };
}

struct RefRec {
    is_key: bool,
    ptr: usize,
    logical: u32,
    inst: u32,
    got_clock: u64,
}

pub struct ExecOpts {
    /// the n-th callback invocation (1-based, counted over the whole run) panics
    pub panic_at: Option<u64>,
    /// log payload reads (C15)
    pub log_reads: bool,
    /// run the structural inspector at quiescence
    pub inspect: bool,
    /// count key comparisons per lookup at quiescence (C06)
    pub lookup_cost: bool,
    /// run the tree-bin validator after every k-th operation of every thread, on every tree
    /// bin whose lock is free at that instant (C06 as a run-time invariant)
    pub midrun_every: Option<u32>,
    /// after the quiescent checks, keep inserting fresh keys until the table has grown once more
    /// (C10: "later growth still works")
    pub post_growth: bool,
    /// at every retirement check that the retired object is no longer reachable from the map's
    /// roots (C03: nothing is released for reclamation while new readers can still find it)
    pub retire_check: bool,
}

impl Default for ExecOpts {
    fn default() -> Self {
        ExecOpts {
            panic_at: None,
            log_reads: false,
            inspect: true,
            lookup_cost: false,
            midrun_every: None,
            post_growth: false,
            retire_check: false,
        }
    }
}

#[derive(Debug, Default, Clone)]
pub struct Quiescent {
    /// per key of the universe: get_key_value result (key instance, value id, n)
    pub lookups: Vec<(u32, Option<(u32, u32, u64)>)>,
    /// iteration result: (k, kinst, vid)
    pub iter: Vec<(u32, u32, u32)>,
    pub keys: Vec<u32>,
    pub values: Vec<u32>,
    pub len: usize,
    pub is_empty: bool,
    pub inspect: Option<crate::inspect::Report>,
    /// (key, present?, comparisons used by get) for the C06 oracle
    pub lookup_cost: Vec<(u32, bool, u64)>,
    pub errors: Vec<String>,
    /// (table length before, table length after, inserts needed, size_ctl after) of the post-run growth probe
    pub post_growth: Option<(usize, usize, usize, isize)>,
}

pub struct RunResult {
    pub history: Vec<OpRec>,
    pub guards: Vec<GuardInterval>,
    pub outcome: RunOutcome,
    /// violations noticed by the executor itself (invalid references, refused value damaged)
    pub ref_errors: Vec<String>,
    pub refs_checked: u64,
    pub quiescent: Quiescent,
    pub insts: Vec<Inst>,
    pub reads: Vec<ReadRec>,
    pub ledger_violations: Vec<String>,
    pub alloc: alloc::Report,
    pub callbacks: u64,
    pub collector_addr: usize,
    /// clock at which the concurrent part ended
    pub end_clock: u64,
    pub teardown_panic: Option<String>,
    /// state of every key of the universe after pre-population: (k, Some((key instance, value id)))
    pub initial: Vec<(u32, Option<(u32, u32)>)>,
    /// table length after pre-population (0 = not allocated)
    pub initial_table_len: usize,
    /// tree-bin validation errors found while the run was in progress, and how often it ran
    pub midrun_errors: Vec<String>,
    pub midrun_checks: u64,
    pub retire_errors: Vec<String>,
    pub retire_checks: u64,
    /// simulated pool (C19): parts published, run by a helper thread, run by the publisher
    /// itself, and waits of a publisher for a part still running elsewhere
    pub par: [u64; 4],
}

pub enum Tgt {
    Map(Map),
    Set(Set),
}

impl Tgt {
    fn guard(&self) -> Guard<'_> {
        match self {
            Tgt::Map(m) => m.guard(),
            Tgt::Set(s) => s.guard(),
        }
    }
    pub fn map_dump_target(&self) -> MapRef<'_> {
        match self {
            Tgt::Map(m) => MapRef::Map(m),
            Tgt::Set(s) => MapRef::Set(s.verif_map()),
        }
    }
}

pub enum MapRef<'a> {
    Map(&'a Map),
    Set(&'a flurry::HashMap<Key, (), SimBuild>),
}

enum AnyIter {
    Iter(flurry::iter::Iter<'static, Key, Val>),
    Keys(flurry::iter::Keys<'static, Key, Val>),
    Values(flurry::iter::Values<'static, Key, Val>),
    SetKeys(flurry::iter::Keys<'static, Key, ()>),
}

struct Shared<'a> {
    tgt: &'a Tgt,
    callbacks: &'a AtomicU64,
    panic_at: Option<u64>,
    midrun_every: Option<u32>,
    hash: HashKind,
    midrun: &'a Mutex<(Vec<String>, u64)>,
    pool: &'a crate::par::Pool,
    /// never-modified twin of the target (for relations between two collections)
    twin: &'a Tgt,
}

fn midrun_inspect(sh: &Shared<'_>, thread: u8, after_op: usize) {
    let _q = sched::quiet();
    let errs = match sh.tgt {
        Tgt::Map(m) => {
            let g = m.guard();
            let d = m.verif_dump(&g);
            crate::inspect::midrun_tree_errors(&d, sh.hash)
        }
        Tgt::Set(s) => {
            let g = s.guard();
            let d = s.verif_map().verif_dump(&g);
            crate::inspect::midrun_tree_errors(&d, sh.hash)
        }
    };
    let mut mr = sh.midrun.lock().unwrap();
    mr.1 += 1;
    for e in errs {
        if mr.0.len() < 4 {
            mr.0.push(format!("at clock {} (after op{} of t{}, other operations in flight): {}", sched::now(), after_op, thread, e));
        }
    }
}

struct Ctx<'a> {
    sh: &'a Shared<'a>,
    thread: u8,
    facade: Facade,
    guard: Option<Guard<'a>>,
    guard_enter: u64,
    iter: Option<AnyIter>,
    refs: Vec<RefRec>,
    refs_checked: u64,
    intervals: Vec<GuardInterval>,
    errors: Vec<String>,
    new_kinst: u32,
}

fn vread(ctx: &mut Ctx<'_>, v: &Val, what: &str) -> (u32, u64) {
    match v.read() {
        Ok((id, inst, n)) => {
            if ctx.guard.is_some() {
                ctx.refs.push(RefRec {
                    is_key: false,
                    ptr: v as *const Val as usize,
                    logical: id,
                    inst,
                    got_clock: sched::now(),
                });
            }
            (id, n)
        }
        Err(e) => {
            ctx.errors.push(format!("t{} {}: {}", ctx.thread, what, e));
            (u32::MAX - 1, 0)
        }
    }
}

fn kread(ctx: &mut Ctx<'_>, k: &Key, what: &str) -> (u32, u32) {
    match k.read() {
        Ok((kk, inst)) => {
            if ctx.guard.is_some() {
                ctx.refs.push(RefRec {
                    is_key: true,
                    ptr: k as *const Key as usize,
                    logical: kk,
                    inst,
                    got_clock: sched::now(),
                });
            }
            (kk, inst)
        }
        Err(e) => {
            ctx.errors.push(format!("t{} {}: {}", ctx.thread, what, e));
            (u32::MAX - 1, u32::MAX - 1)
        }
    }
}

fn recheck(ctx: &mut Ctx<'_>, when: &str) {
    let refs = std::mem::take(&mut ctx.refs);
    for r in &refs {
        ctx.refs_checked += 1;
        let res = if r.is_key {
            unsafe { &*(r.ptr as *const Key) }.read().map(|(k, i)| (k, i))
        } else {
            unsafe { &*(r.ptr as *const Val) }.read().map(|(id, i, _)| (id, i))
        };
        match res {
            Ok((l, i)) if l == r.logical && i == r.inst => {}
            Ok((l, i)) => ctx.errors.push(format!(
                "t{} {}: {} reference obtained at clock {} changed under a live guard: was logical {} inst {}, now logical {} inst {}",
                ctx.thread, when, if r.is_key { "key" } else { "value" }, r.got_clock, r.logical, r.inst, l, i
            )),
            Err(e) => ctx.errors.push(format!(
                "t{} {}: reference obtained at clock {} under a still-live guard is dangling: {}",
                ctx.thread, when, r.got_clock, e
            )),
        }
    }
    ctx.refs = refs;
}

fn release_guard(ctx: &mut Ctx<'_>, why: &str) {
    if ctx.guard.is_some() {
        ctx.iter = None;
        recheck(ctx, why);
        ctx.refs.clear();
        let g = ctx.guard.take();
        // the guard stops protecting at the instant its release begins; reclamation that the
        // release triggers (and the seams inside Table::drop) comes after this stamp
        let exit = sched::now();
        drop(g);
        ctx.intervals.push(GuardInterval {
            thread: ctx.thread,
            enter: ctx.guard_enter,
            exit,
        });
    }
}

fn pin(ctx: &mut Ctx<'_>) {
    if ctx.guard.is_none() {
        ctx.guard_enter = sched::now();
        ctx.guard = Some(ctx.sh.tgt.guard());
    }
}

/// Runs `f` with a guard: the held one, or a temporary one for this operation only.
fn with_guard<R>(ctx: &mut Ctx<'_>, f: impl FnOnce(&mut Ctx<'_>, &Guard<'_>) -> R) -> R {
    if ctx.guard.is_some() {
        // safety: the guard is only dropped by release_guard, never while `f` runs
        let g: *const Guard<'_> = ctx.guard.as_ref().unwrap();
        f(ctx, unsafe { &*g })
    } else {
        let enter = sched::now();
        let g = ctx.sh.tgt.guard();
        let r = f(ctx, &g);
        let exit = sched::now();
        drop(g);
        ctx.intervals.push(GuardInterval {
            thread: ctx.thread,
            enter,
            exit,
        });
        r
    }
}

fn callback_tick(sh: &Shared<'_>) {
    let n = sh.callbacks.fetch_add(1, AO::Relaxed) + 1;
    if sh.panic_at == Some(n) {
        panic!("injected callback panic #{}", n);
    }
}

fn exec_op(ctx: &mut Ctx<'_>, op: &Op) -> Res {
    let sh = ctx.sh;
    let pinned = ctx.facade == Facade::Pinned;
    match (sh.tgt, op) {
        /* ---------------- map, per-key ---------------- */
        (Tgt::Map(m), Op::Get(k)) if pinned && *k % 3 == 0 => with_guard(ctx, |ctx, g| {
            // `Index` on the reference type: panics for an absent key, by contract
            let r = std::panic::catch_unwind(std::panic::AssertUnwindSafe(|| &m.with_guard(g)[&KeyQ(*k)] as *const Val)).ok();
            Res::Opt(r.map(|v| vread(ctx, unsafe { &*v }, "index").0))
        }),
        (Tgt::Map(m), Op::Get(k)) => with_guard(ctx, |ctx, g| {
            let r = if pinned { m.with_guard(g).get(&KeyQ(*k)).map(|v| v as *const Val) } else { m.get(&KeyQ(*k), g).map(|v| v as *const Val) };
            Res::Opt(r.map(|v| vread(ctx, unsafe { &*v }, "get").0))
        }),
        (Tgt::Map(m), Op::Contains(k)) => with_guard(ctx, |_, g| {
            Res::Bool(if pinned { m.with_guard(g).contains_key(&KeyQ(*k)) } else { m.contains_key(&KeyQ(*k), g) })
        }),
        (Tgt::Map(m), Op::GetKV(k)) => with_guard(ctx, |ctx, g| {
            let r = if pinned { m.with_guard(g).get_key_value(&KeyQ(*k)).map(|(a, b)| (a as *const Key, b as *const Val)) } else { m.get_key_value(&KeyQ(*k), g).map(|(a, b)| (a as *const Key, b as *const Val)) };
            Res::KV(r.map(|(a, b)| {
                let ki = kread(ctx, unsafe { &*a }, "get_key_value").1;
                let vi = vread(ctx, unsafe { &*b }, "get_key_value").0;
                (ki, vi)
            }))
        }),
        (Tgt::Map(m), Op::Insert(k, vid)) => with_guard(ctx, |ctx, g| {
            let key = Key::new(*k);
            ctx.new_kinst = key.inst;
            let val = Val::new(*vid);
            let r = if pinned { m.with_guard(g).insert(key, val).map(|v| v as *const Val) } else { m.insert(key, val, g).map(|v| v as *const Val) };
            Res::Opt(r.map(|v| vread(ctx, unsafe { &*v }, "insert(old)").0))
        }),
        (Tgt::Map(m), Op::TryInsert(k, vid)) => with_guard(ctx, |ctx, g| {
            let key = Key::new(*k);
            ctx.new_kinst = key.inst;
            let val = Val::new(*vid);
            let r = if pinned {
                match m.with_guard(g).try_insert(key, val) {
                    Ok(v) => Ok(v as *const Val),
                    Err(e) => Err((e.current as *const Val, e.not_inserted)),
                }
            } else {
                match m.try_insert(key, val, g) {
                    Ok(v) => Ok(v as *const Val),
                    Err(e) => Err((e.current as *const Val, e.not_inserted)),
                }
            };
            match r {
                Ok(v) => {
                    let id = vread(ctx, unsafe { &*v }, "try_insert(ok)").0;
                    if id != *vid {
                        ctx.errors.push(format!("t{} try_insert returned a reference to value {} instead of the inserted {}", ctx.thread, id, vid));
                    }
                    Res::TryOk
                }
                Err((cur, back)) => {
                    let cur = vread(ctx, unsafe { &*cur }, "try_insert(current)").0;
                    let back_ok = matches!(back.read(), Ok((id, _, _)) if id == *vid);
                    Res::TryErr { cur, back_ok }
                }
            }
        }),
        (Tgt::Map(m), Op::Remove(k)) => with_guard(ctx, |ctx, g| {
            let r = if pinned { m.with_guard(g).remove(&KeyQ(*k)).map(|v| v as *const Val) } else { m.remove(&KeyQ(*k), g).map(|v| v as *const Val) };
            Res::Opt(r.map(|v| vread(ctx, unsafe { &*v }, "remove").0))
        }),
        (Tgt::Map(m), Op::RemoveEntry(k)) => with_guard(ctx, |ctx, g| {
            let r = if pinned { m.with_guard(g).remove_entry(&KeyQ(*k)).map(|(a, b)| (a as *const Key, b as *const Val)) } else { m.remove_entry(&KeyQ(*k), g).map(|(a, b)| (a as *const Key, b as *const Val)) };
            Res::KV(r.map(|(a, b)| {
                let ki = kread(ctx, unsafe { &*a }, "remove_entry").1;
                let vi = vread(ctx, unsafe { &*b }, "remove_entry").0;
                (ki, vi)
            }))
        }),
        (Tgt::Map(m), Op::Compute(k, cf, vid)) => with_guard(ctx, |ctx, g| {
            let mut calls = 0u32;
            let mut saw = None;
            let mut saw_n = 0u64;
            let mut call_clock = 0u64;
            let mut cb_err: Option<String> = None;
            let want = *k;
            let f = |kk: &Key, v: &Val| -> Option<Val> {
                calls += 1;
                call_clock = sched::now();
                match kk.read() {
                    Ok((kn, _)) if kn == want => {}
                    Ok((kn, _)) => cb_err = Some(format!("compute callback for key {} received key {}", want, kn)),
                    Err(e) => cb_err = Some(format!("compute callback key: {}", e)),
                }
                match v.read() {
                    Ok((id, _, n)) => {
                        saw = Some(id);
                        saw_n = n;
                    }
                    Err(e) => cb_err = Some(format!("compute callback value: {}", e)),
                }
                callback_tick(sh);
                match cf {
                    CFn::Replace => Some(Val::new(*vid)),
                    CFn::Inc => Some(Val::with_n(*vid, saw_n + 1)),
                    CFn::Remove => None,
                }
            };
            let r = if pinned { m.with_guard(g).compute_if_present(&KeyQ(*k), f).map(|v| v as *const Val) } else { m.compute_if_present(&KeyQ(*k), f, g).map(|v| v as *const Val) };
            if let Some(e) = cb_err {
                ctx.errors.push(format!("t{} {}", ctx.thread, e));
            }
            let (ret, ret_n) = match r {
                Some(v) => {
                    let (id, n) = vread(ctx, unsafe { &*v }, "compute(result)");
                    (Some(id), n)
                }
                None => (None, 0),
            };
            Res::Compute { calls, saw, saw_n, ret, ret_n, call_clock }
        }),
        (Tgt::Map(m), Op::Retain(p)) | (Tgt::Map(m), Op::RetainForce(p)) => with_guard(ctx, |ctx, g| {
            let thread = ctx.thread;
            CB_LOG.with(|l| l.borrow_mut().clear());
            let mut errs = Vec::new();
            let f = |kk: &Key, v: &Val| -> bool {
                let (k, kinst) = match kk.read() {
                    Ok(x) => x,
                    Err(e) => {
                        errs.push(format!("retain callback key: {}", e));
                        (u32::MAX - 1, 0)
                    }
                };
                let vid = match v.read() {
                    Ok((id, _, _)) => id,
                    Err(e) => {
                        errs.push(format!("retain callback value: {}", e));
                        u32::MAX - 1
                    }
                };
                callback_tick(sh);
                let keep = p.keep(k, vid);
                CB_LOG.with(|l| l.borrow_mut().push(PredRec { k, kinst, vid, keep, clock: sched::now() }));
                if let Pred::ReinsertReject(rk, rvid) = p {
                    // (at most 40 times per call: a removed-and-re-inserted key can land ahead of
                    // the iterator again and again when two such retains chase each other)
                    if *rk == k && NESTED.with(|n| n.borrow().len()) < 40 {
                        // the predicate replaces the entry it has just been shown
                        let inv = sched::op_start();
                        let key = Key::new(k);
                        let nk = key.inst;
                        // a predicate may be shown the same key more than once (its own insert can
                        // land ahead of the iterator): every write still gets a unique value id
                        let nth = NESTED.with(|n| n.borrow().len()) as u32;
                        let vid = *rvid + 10_000_000 * nth;
                        let old = m.insert(key, Val::new(vid), g).map(|v| v.read().map(|x| x.0).unwrap_or(NONE));
                        let ret = sched::op_end();
                        NESTED.with(|n| n.borrow_mut().push(OpRec { thread, idx: 9000 + nth as u16, op: Op::Insert(k, vid), inv, ret, res: Res::Opt(old), new_kinst: nk }));
                    }
                }
                keep
            };
            let force = matches!(op, Op::RetainForce(_));
            match (pinned, force) {
                (false, false) => m.retain(f, g),
                (false, true) => m.retain_force(f, g),
                (true, false) => m.with_guard(g).retain(f),
                (true, true) => m.with_guard(g).retain_force(f),
            }
            for e in errs {
                ctx.errors.push(format!("t{} {}", ctx.thread, e));
            }
            Res::Retain(CB_LOG.with(|l| std::mem::take(&mut *l.borrow_mut())))
        }),
        (Tgt::Map(m), Op::Clear) => with_guard(ctx, |_, g| {
            if pinned { m.with_guard(g).clear() } else { m.clear(g) }
            Res::Unit
        }),
        (Tgt::Map(m), Op::Reserve(n)) => with_guard(ctx, |_, g| {
            if pinned { m.with_guard(g).reserve(*n as usize) } else { m.reserve(*n as usize, g) }
            Res::Unit
        }),
        (Tgt::Map(m), Op::Len) => Res::Len(m.len()),
        (Tgt::Map(m), Op::EqSelf) => {
            #[allow(clippy::eq_op)]
            let r = *m == *m;
            Res::Bool(r)
        }
        (Tgt::Set(s), Op::EqSelf) => {
            #[allow(clippy::eq_op)]
            let r = *s == *s;
            Res::Bool(r)
        }
        (Tgt::Map(m), Op::Rel(kind)) => {
            let Tgt::Map(o) = sh.twin else { unreachable!() };
            let k = if *kind >= 5 { *kind - 5 } else { *kind };
            let r = match k {
                0 => *m == *o,
                1 => *o == *m,
                2 => m.pin() == o.pin(),
                3 => *m == o.pin(),
                _ => m.pin() == *o,
            };
            Res::Bool(r)
        }
        (Tgt::Set(s), Op::Rel(kind)) => {
            let Tgt::Set(o) = sh.twin else { unreachable!() };
            let r = match *kind {
                0 => *s == *o,
                1 => *o == *s,
                2 => s.pin() == o.pin(),
                3 => *s == o.pin(),
                4 => s.pin() == *o,
                5 => {
                    if pinned {
                        s.pin().is_subset(&o.pin())
                    } else {
                        let (g, og) = (s.guard(), o.guard());
                        s.is_subset(o, &g, &og)
                    }
                }
                6 => {
                    if pinned {
                        s.pin().is_superset(&o.pin())
                    } else {
                        let (g, og) = (s.guard(), o.guard());
                        s.is_superset(o, &g, &og)
                    }
                }
                _ => {
                    if pinned {
                        s.pin().is_disjoint(&o.pin())
                    } else {
                        let (g, og) = (s.guard(), o.guard());
                        s.is_disjoint(o, &g, &og)
                    }
                }
            };
            Res::Bool(r)
        }
        (Tgt::Map(m), Op::Extend(kv)) => {
            let items: Vec<(Key, Val)> = kv.iter().map(|(k, v)| (Key::new(*k), Val::new(*v))).collect();
            let mut mm: &Map = m;
            mm.extend(items);
            Res::Unit
        }
        (Tgt::Map(m), Op::IterAll(IterKind::Clone)) => {
            let c: Map = m.clone();
            let done = sched::now();
            let mut items = Vec::new();
            {
                let g = c.guard();
                for (k, v) in c.iter(&g) {
                    match (k.read(), v.read()) {
                        (Ok((kk, ki)), Ok((vi, _, _))) => items.push(Item { k: kk, kinst: ki, vid: vi, clock: done }),
                        (a, b) => ctx.errors.push(format!("t{} clone() holds an invalid entry: {:?} {:?}", ctx.thread, a.err(), b.err())),
                    }
                }
                if c.len() != items.len() {
                    ctx.errors.push(format!("t{} clone(): len() = {} but iteration yields {} entries", ctx.thread, c.len(), items.len()));
                }
                for it in &items {
                    if c.get(&KeyQ(it.k), &g).is_none() {
                        ctx.errors.push(format!("t{} clone(): key {} is iterated but lookup in the clone fails", ctx.thread, it.k));
                    }
                }
            }
            drop(c);
            Res::Items { items, done: true }
        }
        (Tgt::Set(s), Op::IterAll(IterKind::Clone)) => {
            let c: Set = s.clone();
            let done = sched::now();
            let mut items = Vec::new();
            {
                let g = c.guard();
                for k in c.iter(&g) {
                    match k.read() {
                        Ok((kk, ki)) => items.push(Item { k: kk, kinst: ki, vid: 0, clock: done }),
                        Err(e) => ctx.errors.push(format!("t{} set clone() holds an invalid element: {}", ctx.thread, e)),
                    }
                }
                if c.len() != items.len() {
                    ctx.errors.push(format!("t{} set clone(): len() = {} but iteration yields {} elements", ctx.thread, c.len(), items.len()));
                }
            }
            drop(c);
            Res::Items { items, done: true }
        }
        (Tgt::Map(m), Op::IterAll(kind)) => with_guard(ctx, |ctx, g| {
            let mut items = Vec::new();
            match kind {
                IterKind::Iter if pinned => {
                    for (k, v) in m.with_guard(g).iter() {
                        callback_tick(sh);
                        let (kk, ki) = kread(ctx, k, "ref.iter");
                        let vi = vread(ctx, v, "ref.iter").0;
                        items.push(Item { k: kk, kinst: ki, vid: vi, clock: sched::now() });
                    }
                }
                IterKind::Keys if pinned => {
                    for k in m.with_guard(g).keys() {
                        callback_tick(sh);
                        let (kk, ki) = kread(ctx, k, "ref.keys");
                        items.push(Item { k: kk, kinst: ki, vid: NONE, clock: sched::now() });
                    }
                }
                IterKind::Values if pinned => {
                    for v in m.with_guard(g).values() {
                        callback_tick(sh);
                        let vi = vread(ctx, v, "ref.values").0;
                        items.push(Item { k: NONE, kinst: NONE, vid: vi, clock: sched::now() });
                    }
                }
                IterKind::Iter => {
                    for (k, v) in m.iter(g) {
                        callback_tick(sh); // the code consuming the iterator may panic (C18)
                        let (kk, ki) = kread(ctx, k, "iter");
                        let vi = vread(ctx, v, "iter").0;
                        items.push(Item { k: kk, kinst: ki, vid: vi, clock: sched::now() });
                    }
                }
                IterKind::Keys => {
                    for k in m.keys(g) {
                        callback_tick(sh);
                        let (kk, ki) = kread(ctx, k, "keys");
                        items.push(Item { k: kk, kinst: ki, vid: NONE, clock: sched::now() });
                    }
                }
                IterKind::Values => {
                    for v in m.values(g) {
                        callback_tick(sh);
                        let vi = vread(ctx, v, "values").0;
                        items.push(Item { k: NONE, kinst: NONE, vid: vi, clock: sched::now() });
                    }
                }
                IterKind::Clone => unreachable!("handled above"),
            }
            Res::Items { items, done: true }
        }),
        (Tgt::Map(m), Op::IterOpen(kind)) => {
            pin(ctx);
            let g: &'static Guard<'static> = unsafe { &*(ctx.guard.as_ref().unwrap() as *const Guard<'_> as *const Guard<'static>) };
            let m: &'static Map = unsafe { &*(m as *const Map) };
            ctx.iter = Some(match kind {
                IterKind::Iter | IterKind::Clone => AnyIter::Iter(m.iter(g)),
                IterKind::Keys => AnyIter::Keys(m.keys(g)),
                IterKind::Values => AnyIter::Values(m.values(g)),
            });
            Res::Unit
        }
        /* ---------------- set ---------------- */
        (Tgt::Set(s), Op::Get(k)) | (Tgt::Set(s), Op::GetKV(k)) => with_guard(ctx, |ctx, g| {
            let r = if pinned { s.with_guard(g).get(&KeyQ(*k)).map(|v| v as *const Key) } else { s.get(&KeyQ(*k), g).map(|v| v as *const Key) };
            Res::KV(r.map(|a| (kread(ctx, unsafe { &*a }, "set.get").1, 0)))
        }),
        (Tgt::Set(s), Op::Contains(k)) => with_guard(ctx, |_, g| {
            Res::Bool(if pinned { s.with_guard(g).contains(&KeyQ(*k)) } else { s.contains(&KeyQ(*k), g) })
        }),
        (Tgt::Set(s), Op::Insert(k, _)) | (Tgt::Set(s), Op::TryInsert(k, _)) => with_guard(ctx, |ctx, g| {
            let key = Key::new(*k);
            ctx.new_kinst = key.inst;
            Res::Bool(if pinned { s.with_guard(g).insert(key) } else { s.insert(key, g) })
        }),
        (Tgt::Set(s), Op::Remove(k)) | (Tgt::Set(s), Op::Compute(k, _, _)) => with_guard(ctx, |_, g| {
            Res::Bool(if pinned { s.with_guard(g).remove(&KeyQ(*k)) } else { s.remove(&KeyQ(*k), g) })
        }),
        (Tgt::Set(s), Op::RemoveEntry(k)) => with_guard(ctx, |ctx, g| {
            let r = if pinned { s.with_guard(g).take(&KeyQ(*k)).map(|v| v as *const Key) } else { s.take(&KeyQ(*k), g).map(|v| v as *const Key) };
            Res::KV(r.map(|a| (kread(ctx, unsafe { &*a }, "set.take").1, 0)))
        }),
        (Tgt::Set(s), Op::Retain(p)) | (Tgt::Set(s), Op::RetainForce(p)) => with_guard(ctx, |ctx, g| {
            let thread = ctx.thread;
            CB_LOG.with(|l| l.borrow_mut().clear());
            let mut errs = Vec::new();
            let f = |kk: &Key| -> bool {
                let (k, kinst) = match kk.read() {
                    Ok(x) => x,
                    Err(e) => {
                        errs.push(format!("set.retain callback key: {}", e));
                        (u32::MAX - 1, 0)
                    }
                };
                callback_tick(sh);
                let keep = p.keep(k, 0);
                CB_LOG.with(|l| l.borrow_mut().push(PredRec { k, kinst, vid: 0, keep, clock: sched::now() }));
                if let Pred::ReinsertReject(rk, _) = p {
                    if *rk == k && NESTED.with(|n| n.borrow().len()) < 40 {
                        let inv = sched::op_start();
                        let key = Key::new(k);
                        let nk = key.inst;
                        let fresh = s.insert(key, g);
                        let ret = sched::op_end();
                        NESTED.with(|n| n.borrow_mut().push(OpRec { thread, idx: 9000, op: Op::Insert(k, 0), inv, ret, res: Res::Bool(fresh), new_kinst: nk }));
                    }
                }
                keep
            };
            if pinned { s.with_guard(g).retain(f) } else { s.retain(f, g) }
            for e in errs {
                ctx.errors.push(format!("t{} {}", ctx.thread, e));
            }
            Res::Retain(CB_LOG.with(|l| std::mem::take(&mut *l.borrow_mut())))
        }),
        (Tgt::Set(s), Op::Clear) => with_guard(ctx, |_, g| {
            if pinned { s.with_guard(g).clear() } else { s.clear(g) }
            Res::Unit
        }),
        (Tgt::Set(s), Op::Reserve(n)) => with_guard(ctx, |_, g| {
            if pinned { s.with_guard(g).reserve(*n as usize) } else { s.reserve(*n as usize, g) }
            Res::Unit
        }),
        (Tgt::Set(s), Op::Len) => Res::Len(s.len()),
        (Tgt::Set(s), Op::Extend(kv)) => {
            let items: Vec<Key> = kv.iter().map(|(k, _)| Key::new(*k)).collect();
            let mut ss: &Set = s;
            ss.extend(items);
            Res::Unit
        }
        (Tgt::Set(s), Op::IterAll(_)) if pinned => with_guard(ctx, |ctx, g| {
            let mut items = Vec::new();
            for k in s.with_guard(g).iter() {
                let (kk, ki) = kread(ctx, k, "setref.iter");
                items.push(Item { k: kk, kinst: ki, vid: 0, clock: sched::now() });
            }
            Res::Items { items, done: true }
        }),
        (Tgt::Set(s), Op::IterAll(_)) => with_guard(ctx, |ctx, g| {
            let mut items = Vec::new();
            for k in s.iter(g) {
                let (kk, ki) = kread(ctx, k, "set.iter");
                items.push(Item { k: kk, kinst: ki, vid: 0, clock: sched::now() });
            }
            Res::Items { items, done: true }
        }),
        (Tgt::Set(s), Op::IterOpen(_)) => {
            pin(ctx);
            let g: &'static Guard<'static> = unsafe { &*(ctx.guard.as_ref().unwrap() as *const Guard<'_> as *const Guard<'static>) };
            let s: &'static Set = unsafe { &*(s as *const Set) };
            ctx.iter = Some(AnyIter::SetKeys(s.iter(g)));
            Res::Unit
        }
        (Tgt::Map(m), Op::ParExtend(kv, parts, via_ref)) => {
            use rayon::iter::ParallelExtend;
            let items: Vec<(Key, Val)> = kv.iter().map(|(k, v)| (Key::new(*k), Val::new(*v))).collect();
            let it = crate::par::SimParIter { parts: crate::par::cut(items, *parts as usize), pool: sh.pool };
            if *via_ref {
                let mut r = m.pin();
                r.par_extend(it);
            } else {
                let mut mm: &Map = m;
                mm.par_extend(it);
            }
            Res::Unit
        }
        (Tgt::Set(s), Op::ParExtend(kv, parts, via_ref)) => {
            use rayon::iter::ParallelExtend;
            let items: Vec<Key> = kv.iter().map(|(k, _)| Key::new(*k)).collect();
            let it = crate::par::SimParIter { parts: crate::par::cut(items, *parts as usize), pool: sh.pool };
            if *via_ref {
                let mut r = s.pin();
                r.par_extend(it);
            } else {
                let mut ss: &Set = s;
                ss.par_extend(it);
            }
            Res::Unit
        }
        (Tgt::Map(_), Op::ParCollect(kv, parts)) => {
            use rayon::iter::FromParallelIterator;
            DEFAULT_HASH.with(|c| c.set(sh.hash));
            let items: Vec<(Key, Val)> = kv.iter().map(|(k, v)| (Key::new(*k), Val::new(*v))).collect();
            let it = crate::par::SimParIter { parts: crate::par::cut(items, *parts as usize), pool: sh.pool };
            let m: Map = Map::from_par_iter(it);
            let mut out = Vec::new();
            {
                let g = m.guard();
                for (k, v) in m.iter(&g) {
                    let (kk, ki) = kread(ctx, k, "from_par_iter().iter");
                    let vi = vread(ctx, v, "from_par_iter().iter").0;
                    out.push(Item { k: kk, kinst: ki, vid: vi, clock: sched::now() });
                }
                for (k, _) in kv {
                    if m.get(&KeyQ(*k), &g).is_none() {
                        ctx.errors.push(format!("t{} from_par_iter(): key {} was supplied but lookup in the collected map fails", ctx.thread, k));
                    }
                }
                if m.len() != out.len() {
                    ctx.errors.push(format!("t{} from_par_iter(): len() = {} but iteration yields {} entries", ctx.thread, m.len(), out.len()));
                }
            }
            ctx.refs.retain(|r| r.got_clock == u64::MAX);
            drop(m);
            Res::Items { items: out, done: true }
        }
        (Tgt::Set(_), Op::ParCollect(kv, parts)) => {
            use rayon::iter::FromParallelIterator;
            DEFAULT_HASH.with(|c| c.set(sh.hash));
            let items: Vec<Key> = kv.iter().map(|(k, _)| Key::new(*k)).collect();
            let it = crate::par::SimParIter { parts: crate::par::cut(items, *parts as usize), pool: sh.pool };
            let s: Set = Set::from_par_iter(it);
            let mut out = Vec::new();
            {
                let g = s.guard();
                for k in s.iter(&g) {
                    let (kk, ki) = kread(ctx, k, "set.from_par_iter().iter");
                    out.push(Item { k: kk, kinst: ki, vid: 0, clock: sched::now() });
                }
                for (k, _) in kv {
                    if !s.contains(&KeyQ(*k), &g) {
                        ctx.errors.push(format!("t{} set.from_par_iter(): key {} was supplied but lookup in the collected set fails", ctx.thread, k));
                    }
                }
                if s.len() != out.len() {
                    ctx.errors.push(format!("t{} set.from_par_iter(): len() = {} but iteration yields {} entries", ctx.thread, s.len(), out.len()));
                }
            }
            ctx.refs.retain(|r| r.got_clock == u64::MAX);
            drop(s);
            Res::Items { items: out, done: true }
        }
        (_, Op::ParHelp(n)) => {
            sh.pool.help(*n as usize);
            Res::Unit
        }
        (_, Op::Collect(kv, hint)) => {
            // (FromIterator builds its own hasher: the identity hash, as `SimBuild::default()` on a
            // pool thread always was; up to 200 items per collect are sized for that)
            DEFAULT_HASH.with(|c| c.set(HashKind::Identity));
            let items: Vec<(Key, Val)> = kv.iter().map(|(k, v)| (Key::new(*k), Val::new(*v))).collect();
            let m: Map = if *hint { items.into_iter().collect() } else { items.into_iter().filter(|_| true).collect() };
            let mut out = Vec::new();
            {
                let g = m.guard();
                for (k, v) in m.iter(&g) {
                    let (kk, ki) = kread(ctx, k, "collect().iter");
                    let vi = vread(ctx, v, "collect().iter").0;
                    out.push(Item { k: kk, kinst: ki, vid: vi, clock: sched::now() });
                }
                // lookups must agree with iteration
                for (k, _) in kv {
                    if m.get(&KeyQ(*k), &g).is_none() {
                        ctx.errors.push(format!("t{} collect(): key {} was supplied but lookup in the collected map fails", ctx.thread, k));
                    }
                }
            }
            ctx.refs.retain(|r| r.got_clock == u64::MAX); // references into the temporary map die with it
            drop(m);
            Res::Items { items: out, done: true }
        }
        /* ---------------- common ---------------- */
        (_, Op::IterNext(n)) => {
            let mut items = Vec::new();
            let mut done = false;
            let mut it = ctx.iter.take();
            if let Some(it) = it.as_mut() {
                for _ in 0..*n {
                    match it {
                        AnyIter::Iter(i) => match i.next() {
                            Some((k, v)) => {
                                let (kk, ki) = kread(ctx, k, "iter.next");
                                let vi = vread(ctx, v, "iter.next").0;
                                items.push(Item { k: kk, kinst: ki, vid: vi, clock: sched::now() });
                            }
                            None => {
                                done = true;
                                break;
                            }
                        },
                        AnyIter::Keys(i) => match i.next() {
                            Some(k) => {
                                let (kk, ki) = kread(ctx, k, "keys.next");
                                items.push(Item { k: kk, kinst: ki, vid: NONE, clock: sched::now() });
                            }
                            None => {
                                done = true;
                                break;
                            }
                        },
                        AnyIter::Values(i) => match i.next() {
                            Some(v) => {
                                let vi = vread(ctx, v, "values.next").0;
                                items.push(Item { k: NONE, kinst: NONE, vid: vi, clock: sched::now() });
                            }
                            None => {
                                done = true;
                                break;
                            }
                        },
                        AnyIter::SetKeys(i) => match i.next() {
                            Some(k) => {
                                let (kk, ki) = kread(ctx, k, "set.iter.next");
                                items.push(Item { k: kk, kinst: ki, vid: 0, clock: sched::now() });
                            }
                            None => {
                                done = true;
                                break;
                            }
                        },
                    }
                }
            } else {
                done = true;
            }
            ctx.iter = it;
            Res::Items { items, done }
        }
        (_, Op::IterClose) => {
            ctx.iter = None;
            Res::Unit
        }
        (_, Op::Pin) => {
            pin(ctx);
            Res::Unit
        }
        (_, Op::Unpin) => {
            release_guard(ctx, "unpin");
            Res::Unit
        }
        (_, Op::Refresh) => {
            if ctx.guard.is_some() {
                ctx.iter = None;
                recheck(ctx, "refresh");
                ctx.refs.clear();
                let now = sched::now();
                ctx.intervals.push(GuardInterval { thread: ctx.thread, enter: ctx.guard_enter, exit: now });
                ctx.guard.as_mut().unwrap().refresh();
                ctx.guard_enter = now;
            }
            Res::Unit
        }
        (_, Op::Flush) => {
            if let Some(g) = ctx.guard.as_ref() {
                g.flush();
            } else {
                ctx.sh.tgt.guard().flush();
            }
            Res::Unit
        }
        (_, Op::Recheck) => {
            recheck(ctx, "recheck");
            Res::Unit
        }
    }
}

fn panic_msg(p: Box<dyn std::any::Any + Send>) -> String {
    if let Some(s) = p.downcast_ref::<&str>() {
        s.to_string()
    } else if let Some(s) = p.downcast_ref::<String>() {
        s.clone()
    } else {
        "non-string panic".into()
    }
}

pub fn build_target(cfg: &Config) -> Tgt {
    DEFAULT_HASH.with(|c| c.set(cfg.hash));
    let collector = seize::Collector::new().batch_size(cfg.batch.max(1) as usize);
    if cfg.set {
        // HashSet has no with_collector; reclamation pressure then comes from flush/refresh only
        Tgt::Set(Set::with_capacity_and_hasher(cfg.capacity as usize, SimBuild(cfg.hash)))
    } else {
        Tgt::Map(Map::with_capacity_and_hasher(cfg.capacity as usize, SimBuild(cfg.hash)).with_collector(collector))
    }
}

pub fn prepopulate(tgt: &Tgt, cfg: &Config) {
    match tgt {
        Tgt::Map(m) => {
            let g = m.guard();
            for &k in &cfg.prepop {
                m.insert(Key::new(k), Val::new(PREPOP_VID + k), &g);
            }
            for &k in &cfg.preremove {
                m.remove(&KeyQ(k), &g);
            }
        }
        Tgt::Set(s) => {
            let g = s.guard();
            for &k in &cfg.prepop {
                s.insert(Key::new(k), &g);
            }
            for &k in &cfg.preremove {
                s.remove(&KeyQ(k), &g);
            }
        }
    }
}

/// All keys a program can touch.
pub fn universe(p: &Program) -> Vec<u32> {
    let mut ks: Vec<u32> = p.cfg.prepop.clone();
    for t in &p.threads {
        for o in t {
            if let Some(k) = o.key() {
                ks.push(k);
            }
            if let Op::Extend(kv) | Op::ParExtend(kv, _, _) = o {
                ks.extend(kv.iter().map(|x| x.0));
            }
            if let Op::Retain(Pred::ReinsertReject(k, _)) | Op::RetainForce(Pred::ReinsertReject(k, _)) = o {
                ks.push(*k);
            }
        }
    }
    ks.sort_unstable();
    ks.dedup();
    ks
}

fn quiescent(tgt: &Tgt, p: &Program, opts: &ExecOpts) -> Quiescent {
    let mut q = Quiescent::default();
    let uni = universe(p);
    match tgt {
        Tgt::Map(m) => {
            let g = m.guard();
            for &k in &uni {
                let r = m.get_key_value(&KeyQ(k), &g).map(|(kk, v)| {
                    let ki = kk.read().map(|x| x.1).unwrap_or_else(|e| {
                        q.errors.push(format!("quiescent get_key_value({}): {}", k, e));
                        NONE
                    });
                    let (vi, _, n) = v.read().unwrap_or_else(|e| {
                        q.errors.push(format!("quiescent get_key_value({}): {}", k, e));
                        (NONE, NONE, 0)
                    });
                    (ki, vi, n)
                });
                let r2 = m.get(&KeyQ(k), &g).map(|v| v.read().map(|x| x.0).unwrap_or(NONE));
                let c = m.contains_key(&KeyQ(k), &g);
                if r.map(|x| x.1) != r2 || c != r.is_some() {
                    q.errors.push(format!("quiescent lookups of key {} disagree: get_key_value={:?} get={:?} contains={}", k, r, r2, c));
                }
                q.lookups.push((k, r));
            }
            for (k, v) in m.iter(&g) {
                match (k.read(), v.read()) {
                    (Ok((kk, ki)), Ok((vi, _, _))) => q.iter.push((kk, ki, vi)),
                    (a, b) => q.errors.push(format!("quiescent iter yields invalid entry: {:?} {:?}", a.err(), b.err())),
                }
            }
            for k in m.keys(&g) {
                match k.read() {
                    Ok((kk, _)) => q.keys.push(kk),
                    Err(e) => q.errors.push(format!("quiescent keys(): {}", e)),
                }
            }
            for v in m.values(&g) {
                match v.read() {
                    Ok((vi, _, _)) => q.values.push(vi),
                    Err(e) => q.errors.push(format!("quiescent values(): {}", e)),
                }
            }
            q.len = m.len();
            q.is_empty = m.is_empty();
            if opts.lookup_cost {
                for &k in &uni {
                    let before = CMP_COUNT.load(AO::Relaxed);
                    let present = m.get(&KeyQ(k), &g).is_some();
                    q.lookup_cost.push((k, present, CMP_COUNT.load(AO::Relaxed) - before));
                }
                // absent probes around the universe
                let maxk = uni.iter().copied().max().unwrap_or(0);
                for k in [maxk + 1, maxk + 1000, maxk.wrapping_mul(7) + 3] {
                    let before = CMP_COUNT.load(AO::Relaxed);
                    let present = m.contains_key(&KeyQ(k), &g);
                    q.lookup_cost.push((k, present, CMP_COUNT.load(AO::Relaxed) - before));
                }
            }
            if opts.inspect {
                q.inspect = Some(crate::inspect::inspect_map(m, &g, p.cfg.hash));
            }
            if opts.post_growth {
                let len0 = m.verif_table_len();
                let mut n = 0usize;
                let limit = 2 * len0.max(16) + 32;
                while m.verif_table_len() == len0 && n < limit {
                    m.insert(Key::new(10_000_000 + n as u32), Val::new(20_000_000 + n as u32), &g);
                    n += 1;
                }
                let d = m.verif_dump(&g);
                q.post_growth = Some((len0, m.verif_table_len(), n, d.size_ctl));
            }
        }
        Tgt::Set(s) => {
            let g = s.guard();
            for &k in &uni {
                let r = s.get(&KeyQ(k), &g).map(|kk| {
                    let ki = kk.read().map(|x| x.1).unwrap_or_else(|e| {
                        q.errors.push(format!("quiescent set.get({}): {}", k, e));
                        NONE
                    });
                    (ki, 0u32, 0u64)
                });
                let c = s.contains(&KeyQ(k), &g);
                if c != r.is_some() {
                    q.errors.push(format!("quiescent set lookups of {} disagree: get={:?} contains={}", k, r, c));
                }
                q.lookups.push((k, r));
            }
            for k in s.iter(&g) {
                match k.read() {
                    Ok((kk, ki)) => {
                        q.iter.push((kk, ki, 0));
                        q.keys.push(kk);
                    }
                    Err(e) => q.errors.push(format!("quiescent set.iter(): {}", e)),
                }
            }
            q.len = s.len();
            q.is_empty = s.is_empty();
            if opts.inspect {
                q.inspect = Some(crate::inspect::inspect_map(s.verif_map(), &g, p.cfg.hash));
            }
        }
    }
    q
}

/// Executes one program under one schedule.
pub fn execute(p: &Program, mut setup: RunSetup, opts: &ExecOpts) -> RunResult {
    ledger_reset(opts.log_reads);
    CMP_COUNT.store(0, AO::Relaxed);
    alloc::begin();
    setup.ncpu = p.cfg.ncpu.map(|x| x as usize);
    setup.min_stride = p.cfg.min_stride.map(|x| x as isize);
    let tgt = build_target(&p.cfg);
    prepopulate(&tgt, &p.cfg);
    let collector_addr = match &tgt {
        Tgt::Map(m) => m.verif_collector_addr(),
        Tgt::Set(s) => s.verif_map().verif_collector_addr(),
    };
    let initial: Vec<(u32, Option<(u32, u32)>)> = {
        let uni = universe(p);
        match &tgt {
            Tgt::Map(m) => {
                let g = m.guard();
                uni.iter().map(|&k| (k, m.get_key_value(&KeyQ(k), &g).map(|(kk, v)| (root_of(kk.inst), v.id)))).collect()
            }
            Tgt::Set(s) => {
                let g = s.guard();
                uni.iter().map(|&k| (k, s.get(&KeyQ(k), &g).map(|kk| (root_of(kk.inst), 0)))).collect()
            }
        }
    };
    let initial_table_len = match &tgt {
        Tgt::Map(m) => m.verif_table_len(),
        Tgt::Set(s) => s.verif_map().verif_table_len(),
    };
    let callbacks = AtomicU64::new(0);
    let midrun = Mutex::new((Vec::new(), 0u64));
    let pool = crate::par::Pool::default();
    let needs_twin = p.threads.iter().flatten().any(|o| matches!(o, Op::Rel(_)));
    let twin = if needs_twin {
        let t = build_target(&p.cfg);
        prepopulate(&t, &p.cfg);
        t
    } else {
        let mut c = p.cfg.clone();
        c.capacity = 0;
        build_target(&c)
    };
    let shared = Shared {
        tgt: &tgt,
        callbacks: &callbacks,
        panic_at: opts.panic_at,
        midrun_every: opts.midrun_every,
        hash: p.cfg.hash,
        midrun: &midrun,
        pool: &pool,
        twin: &twin,
    };
    let n = p.threads.len();
    let outs: Vec<Mutex<Option<(Vec<OpRec>, Vec<GuardInterval>, Vec<String>, u64)>>> = (0..n).map(|_| Mutex::new(None)).collect();

    let mut jobs: Vec<Box<dyn FnOnce() + Send + '_>> = Vec::new();
    for (ti, ops) in p.threads.iter().enumerate() {
        let sh = &shared;
        let out = &outs[ti];
        let facade = p.cfg.facade.get(ti).copied().unwrap_or(Facade::Guarded);
        // safety: Shared holds only references to Sync data
        struct SendPtr<T>(*const T);
        unsafe impl<T> Send for SendPtr<T> {}
        let shp = SendPtr(sh as *const Shared<'_>);
        jobs.push(Box::new(move || {
            let shp = shp;
            let sh: &Shared<'_> = unsafe { &*shp.0 };
            let mut ctx = Ctx {
                sh,
                thread: ti as u8,
                facade,
                guard: None,
                guard_enter: 0,
                iter: None,
                refs: Vec::new(),
                refs_checked: 0,
                intervals: Vec::new(),
                errors: Vec::new(),
                new_kinst: NONE,
            };
            let mut hist = Vec::with_capacity(ops.len());
            for (i, op) in ops.iter().enumerate() {
                if op.is_guard_op() {
                    let c = sched::now();
                    exec_op(&mut ctx, op);
                    hist.push(OpRec { thread: ti as u8, idx: i as u16, op: op.clone(), inv: c, ret: c, res: Res::Unit, new_kinst: NONE });
                    continue;
                }
                ctx.new_kinst = NONE;
                CUR_OP.with(|c| c.set(op_name(op)));
                let inv = sched::op_start();
                // record the invocation first so that a wedged run still shows the pending op
                let r = std::panic::catch_unwind(std::panic::AssertUnwindSafe(|| exec_op(&mut ctx, op)));
                let ret = sched::op_end();
                let res = match r {
                    Ok(r) => r,
                    Err(e) => {
                        if matches!(op, Op::Retain(_) | Op::RetainForce(_)) {
                            Res::RetainPanic(CB_LOG.with(|l| std::mem::take(&mut *l.borrow_mut())), panic_msg(e))
                        } else {
                            Res::Panic(panic_msg(e))
                        }
                    }
                };
                hist.push(OpRec { thread: ti as u8, idx: i as u16, op: op.clone(), inv, ret, res, new_kinst: ctx.new_kinst });
                NESTED.with(|n| hist.append(&mut n.borrow_mut()));
                if let Some(k) = sh.midrun_every {
                    if (i as u32 + ti as u32) % k.max(1) == 0 {
                        midrun_inspect(sh, ti as u8, i);
                    }
                }
            }
            release_guard(&mut ctx, "end of thread");
            *out.lock().unwrap() = Some((hist, ctx.intervals, ctx.errors, ctx.refs_checked));
        }));
    }

    if opts.retire_check {
        *RETIRE_PROBE.lock().unwrap() = Some((&tgt as *const Tgt as usize, Vec::new(), 0));
    }
    let outcome = sched::run(setup, jobs);
    let (retire_errors, retire_checks) = match RETIRE_PROBE.lock().unwrap().take() {
        Some((_, e, n)) => (e, n),
        None => (Vec::new(), 0),
    };
    let end_clock = outcome.clock;

    let mut history = Vec::new();
    let mut guards = Vec::new();
    let mut ref_errors = Vec::new();
    let mut refs_checked = 0;
    for o in &outs {
        if let Some((h, g, e, rc)) = o.lock().unwrap().take() {
            history.extend(h);
            guards.extend(g);
            ref_errors.extend(e);
            refs_checked += rc;
        }
    }
    history.sort_by_key(|r| r.inv);

    if outcome.wedged {
        // threads are stuck inside the map: nothing can be torn down. The caller reports and
        // exits the process.
        std::mem::forget(tgt);
        std::mem::forget(twin);
        let l = LEDGER.lock().unwrap();
        return RunResult {
            history,
            guards,
            outcome,
            ref_errors,
            refs_checked,
            quiescent: Quiescent::default(),
            insts: l.insts.clone(),
            reads: Vec::new(),
            ledger_violations: l.violations.clone(),
            alloc: alloc::Report::default(),
            callbacks: callbacks.load(AO::Relaxed),
            collector_addr,
            end_clock,
            teardown_panic: None,
            initial,
            initial_table_len,
            midrun_errors: Vec::new(),
            midrun_checks: 0,
            retire_errors,
            retire_checks,
            par: [0; 4],
        };
    }

    let qres = std::panic::catch_unwind(std::panic::AssertUnwindSafe(|| quiescent(&tgt, p, opts)));
    let mut teardown_panic = None;
    let quiescent = match qres {
        Ok(q) => q,
        Err(e) => {
            teardown_panic = Some(format!("quiescent read panicked: {}", panic_msg(e)));
            Quiescent::default()
        }
    };
    let dres = std::panic::catch_unwind(std::panic::AssertUnwindSafe(move || drop(tgt)));
    if let Err(e) = dres {
        teardown_panic = Some(format!("dropping the map panicked: {}", panic_msg(e)));
    }
    // the twin goes before the ledger is read: its instances are part of the drop accounting
    if let Err(e) = std::panic::catch_unwind(std::panic::AssertUnwindSafe(move || drop(twin))) {
        teardown_panic = Some(format!("dropping the twin collection panicked: {}", panic_msg(e)));
    }
    let alloc_rep = alloc::end();
    let mr = midrun.lock().unwrap().clone();
    let l = LEDGER.lock().unwrap();
    RunResult {
        history,
        guards,
        outcome,
        ref_errors,
        refs_checked,
        quiescent,
        insts: l.insts.clone(),
        reads: l.reads.clone(),
        ledger_violations: l.violations.clone(),
        alloc: alloc_rep,
        callbacks: callbacks.load(AO::Relaxed),
        collector_addr,
        end_clock,
        teardown_panic,
        initial,
        initial_table_len,
        midrun_errors: mr.0,
        midrun_checks: mr.1,
        retire_errors,
        retire_checks,
        par: [
            pool.published.load(AO::Relaxed) as u64,
            pool.by_helper.load(AO::Relaxed) as u64,
            pool.by_owner.load(AO::Relaxed) as u64,
            pool.owner_waits.load(AO::Relaxed) as u64,
        ],
    }
}
