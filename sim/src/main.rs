#![allow(dead_code)]
//! flurry-sim: deterministic simulation with fault injection for jonhoo/flurry.
//!
//!   flurry-sim check <prop> <quick|thorough>     orchestrator: build evidence, report violations
//!   flurry-sim worker <prop> <tier> <seed> <first> <stride> <count> [--fps file] [--log]
//!   flurry-sim replay <file> [--verbose]
//!   flurry-sim selfcheck                          determinism proof over many seeds
//!
//! Exit codes: 0 held / 1 violation / 2 harness error.

mod alloc;
mod c09;
mod c14;
mod c19;
mod exec;
mod gen;
mod inspect;
mod lin;
mod oracle;
mod orch;
mod par;
mod program;
mod props;
mod rng;
mod sched;
mod seq;
mod types;

#[global_allocator]
static GLOBAL: alloc::Quarantine = alloc::Quarantine;

use std::sync::atomic::{AtomicU64, Ordering};

pub static CUR_INDEX: AtomicU64 = AtomicU64::new(u64::MAX);
pub static CUR_SEED: AtomicU64 = AtomicU64::new(0);

extern "C" fn crash_handler(sig: libc::c_int) {
    // async-signal-safe: format by hand, write(2), _exit
    let mut buf = [0u8; 96];
    let mut n = 0;
    let put = |b: &mut [u8; 96], n: &mut usize, s: &[u8]| {
        for &c in s {
            if *n < 95 {
                b[*n] = c;
                *n += 1;
            }
        }
    };
    let num = |b: &mut [u8; 96], n: &mut usize, mut x: u64| {
        let mut d = [0u8; 20];
        let mut i = 0;
        if x == 0 {
            d[0] = b'0';
            i = 1;
        }
        while x > 0 {
            d[i] = b'0' + (x % 10) as u8;
            x /= 10;
            i += 1;
        }
        while i > 0 {
            i -= 1;
            if *n < 95 {
                b[*n] = d[i];
                *n += 1;
            }
        }
    };
    put(&mut buf, &mut n, b"\nCRASH ");
    num(&mut buf, &mut n, sig as u64);
    put(&mut buf, &mut n, b" ");
    num(&mut buf, &mut n, CUR_INDEX.load(Ordering::Relaxed));
    put(&mut buf, &mut n, b" ");
    num(&mut buf, &mut n, CUR_SEED.load(Ordering::Relaxed));
    put(&mut buf, &mut n, b"\n");
    unsafe {
        libc::write(1, buf.as_ptr() as *const libc::c_void, n);
        libc::_exit(3);
    }
}

pub fn install_crash_handler() {
    unsafe {
        // alternate stack so that stack overflows are reported too
        let size = 1 << 16;
        let stack = libc::mmap(std::ptr::null_mut(), size, libc::PROT_READ | libc::PROT_WRITE, libc::MAP_PRIVATE | libc::MAP_ANONYMOUS, -1, 0);
        let ss = libc::stack_t {
            ss_sp: stack,
            ss_flags: 0,
            ss_size: size,
        };
        libc::sigaltstack(&ss, std::ptr::null_mut());
        for sig in [libc::SIGSEGV, libc::SIGBUS, libc::SIGABRT, libc::SIGILL, libc::SIGFPE] {
            let mut sa: libc::sigaction = std::mem::zeroed();
            sa.sa_sigaction = crash_handler as *const () as usize;
            sa.sa_flags = libc::SA_ONSTACK;
            libc::sigaction(sig, &sa, std::ptr::null_mut());
        }
    }
}

pub fn pin_to_core(core: usize) {
    unsafe {
        let mut set: libc::cpu_set_t = std::mem::zeroed();
        libc::CPU_SET(core % (libc::CPU_SETSIZE as usize), &mut set);
        libc::sched_setaffinity(0, std::mem::size_of::<libc::cpu_set_t>(), &set);
    }
}

fn main() {
    let args: Vec<String> = std::env::args().collect();
    if args.len() < 2 {
        eprintln!("usage: flurry-sim check|worker|replay|selfcheck ...");
        std::process::exit(2);
    }
    // panics inside simulated operations are data, not noise
    if std::env::var("VERIF_PANIC_VERBOSE").is_err() {
        std::panic::set_hook(Box::new(|_| {}));
    }
    let code = match args[1].as_str() {
        "worker" => orch::worker_main(&args[2..]),
        "check" => orch::check_main(&args[2..]),
        "replay" => orch::replay_main(&args[2..]),
        "selfcheck" => orch::selfcheck_main(&args[2..]),
        "gen" => orch::gen_main(&args[2..]),
        "c09-child" => c09::child_main(),
        "minimise" => {
            let v: serde_json::Value = serde_json::from_str(&std::fs::read_to_string(&args[2]).unwrap()).unwrap();
            let m = orch::minimise(v, 60);
            println!("{}", serde_json::to_string_pretty(&m).unwrap());
            0
        }
        other => {
            eprintln!("unknown command {}", other);
            2
        }
    };
    std::process::exit(code);
}
