//! Poisoning quarantine allocator.
//!
//! While a run is active every freed block of at most `MAXQ` bytes is filled with 0xDF and kept
//! until the run ends. That turns three classes of memory errors of the code under test into
//! deterministic, reportable facts without an external tool:
//!   * free of a block that is already in quarantine  -> double free
//!   * poison damaged when the run ends               -> write after free
//!   * read through a dangling pointer                -> 0xDFDF.. garbage (canary mismatch,
//!     poisoned discriminant panic, or SIGSEGV on a non-canonical address; see crash handler)

use std::alloc::{GlobalAlloc, Layout, System};
use std::sync::atomic::{AtomicBool, AtomicUsize, Ordering};

pub const POISON: u8 = 0xDF;
const MAXQ: usize = 4096;
const CAP: usize = 1 << 20; // slots, power of two
const LIMIT: usize = CAP * 3 / 4;

#[repr(C)]
#[derive(Clone, Copy)]
struct Slot {
    ptr: usize,
    size: usize,
    align: usize,
}

static ACTIVE: AtomicBool = AtomicBool::new(false);
static LOCK: AtomicBool = AtomicBool::new(false);
static TABLE: AtomicUsize = AtomicUsize::new(0); // *mut Slot
static ORDER: AtomicUsize = AtomicUsize::new(0); // *mut u32: indices of used slots
static USED: AtomicUsize = AtomicUsize::new(0);
static DOUBLE_FREE: AtomicUsize = AtomicUsize::new(0);
static DOUBLE_FREE_ADDR: AtomicUsize = AtomicUsize::new(0);
static OVERFLOW: AtomicUsize = AtomicUsize::new(0);
static QUARANTINED_BYTES: AtomicUsize = AtomicUsize::new(0);

pub struct Quarantine;

fn lock() {
    while LOCK
        .compare_exchange_weak(false, true, Ordering::Acquire, Ordering::Relaxed)
        .is_err()
    {
        std::hint::spin_loop();
    }
}
fn unlock() {
    LOCK.store(false, Ordering::Release);
}

unsafe fn table() -> *mut Slot {
    let t = TABLE.load(Ordering::Relaxed);
    if t != 0 {
        return t as *mut Slot;
    }
    let bytes = CAP * std::mem::size_of::<Slot>();
    let p = libc::mmap(
        std::ptr::null_mut(),
        bytes,
        libc::PROT_READ | libc::PROT_WRITE,
        libc::MAP_PRIVATE | libc::MAP_ANONYMOUS,
        -1,
        0,
    );
    assert!(p != libc::MAP_FAILED);
    let o = libc::mmap(
        std::ptr::null_mut(),
        CAP * 4,
        libc::PROT_READ | libc::PROT_WRITE,
        libc::MAP_PRIVATE | libc::MAP_ANONYMOUS,
        -1,
        0,
    );
    assert!(o != libc::MAP_FAILED);
    ORDER.store(o as usize, Ordering::Relaxed);
    TABLE.store(p as usize, Ordering::Relaxed);
    p as *mut Slot
}

#[inline]
fn slot_of(ptr: usize) -> usize {
    ((ptr >> 4).wrapping_mul(0x9E37_79B9_7F4A_7C15) >> 40) & (CAP - 1)
}

/// Must be called with LOCK held. Returns the slot index holding `ptr`, or the first empty one.
unsafe fn find(t: *mut Slot, ptr: usize) -> (usize, bool) {
    let mut i = slot_of(ptr);
    loop {
        let s = &*t.add(i);
        if s.ptr == ptr {
            return (i, true);
        }
        if s.ptr == 0 {
            return (i, false);
        }
        i = (i + 1) & (CAP - 1);
    }
}

unsafe impl GlobalAlloc for Quarantine {
    #[inline]
    unsafe fn alloc(&self, layout: Layout) -> *mut u8 {
        System.alloc(layout)
    }

    #[inline]
    unsafe fn alloc_zeroed(&self, layout: Layout) -> *mut u8 {
        System.alloc_zeroed(layout)
    }

    unsafe fn dealloc(&self, ptr: *mut u8, layout: Layout) {
        if !ACTIVE.load(Ordering::Relaxed) {
            return System.dealloc(ptr, layout);
        }
        lock();
        let t = table();
        let (i, present) = find(t, ptr as usize);
        if present {
            DOUBLE_FREE.fetch_add(1, Ordering::Relaxed);
            DOUBLE_FREE_ADDR.store(ptr as usize, Ordering::Relaxed);
            unlock();
            return; // keep the first copy in quarantine, never hand it to the system twice
        }
        let used = USED.load(Ordering::Relaxed);
        if layout.size() == 0 || layout.size() > MAXQ || used >= LIMIT {
            if layout.size() <= MAXQ && used >= LIMIT {
                OVERFLOW.fetch_add(1, Ordering::Relaxed);
            }
            unlock();
            return System.dealloc(ptr, layout);
        }
        *t.add(i) = Slot {
            ptr: ptr as usize,
            size: layout.size(),
            align: layout.align(),
        };
        *(ORDER.load(Ordering::Relaxed) as *mut u32).add(used) = i as u32;
        USED.store(used + 1, Ordering::Relaxed);
        QUARANTINED_BYTES.fetch_add(layout.size(), Ordering::Relaxed);
        std::ptr::write_bytes(ptr, POISON, layout.size());
        unlock();
    }

    unsafe fn realloc(&self, ptr: *mut u8, layout: Layout, new_size: usize) -> *mut u8 {
        if !ACTIVE.load(Ordering::Relaxed) {
            return System.realloc(ptr, layout, new_size);
        }
        let new_layout = Layout::from_size_align_unchecked(new_size, layout.align());
        let new_ptr = self.alloc(new_layout);
        if !new_ptr.is_null() {
            std::ptr::copy_nonoverlapping(ptr, new_ptr, layout.size().min(new_size));
            self.dealloc(ptr, layout);
        }
        new_ptr
    }
}

#[derive(Debug, Default, Clone)]
pub struct Report {
    pub quarantined: usize,
    pub bytes: usize,
    pub double_free: usize,
    pub double_free_addr: usize,
    pub overflow: usize,
    /// (block address, block size, offset of first damaged byte, byte found)
    pub damaged: Vec<(usize, usize, usize, u8)>,
}

pub fn begin() {
    unsafe {
        table();
    }
    DOUBLE_FREE.store(0, Ordering::Relaxed);
    OVERFLOW.store(0, Ordering::Relaxed);
    QUARANTINED_BYTES.store(0, Ordering::Relaxed);
    ACTIVE.store(true, Ordering::SeqCst);
}

pub fn is_active() -> bool {
    ACTIVE.load(Ordering::Relaxed)
}

/// Is this address inside a block that is currently quarantined (i.e. freed during this run)?
/// Linear in the number of quarantined blocks; used only when reporting.
pub fn in_quarantine(addr: usize) -> Option<(usize, usize)> {
    lock();
    let mut out = None;
    unsafe {
        let t = table();
        let order = ORDER.load(Ordering::Relaxed) as *mut u32;
        for k in 0..USED.load(Ordering::Relaxed) {
            let s = *t.add(*order.add(k) as usize);
            if addr >= s.ptr && addr < s.ptr + s.size {
                out = Some((s.ptr, s.size));
                break;
            }
        }
    }
    unlock();
    out
}

/// Ends the run: checks the poison of every quarantined block, then really frees them.
pub fn end() -> Report {
    ACTIVE.store(false, Ordering::SeqCst);
    lock();
    let mut rep = Report {
        double_free: DOUBLE_FREE.load(Ordering::Relaxed),
        double_free_addr: DOUBLE_FREE_ADDR.load(Ordering::Relaxed),
        overflow: OVERFLOW.load(Ordering::Relaxed),
        bytes: QUARANTINED_BYTES.load(Ordering::Relaxed),
        ..Default::default()
    };
    let mut to_free: Vec<Slot> = Vec::new();
    unsafe {
        let t = table();
        let order = ORDER.load(Ordering::Relaxed) as *mut u32;
        let used = USED.load(Ordering::Relaxed);
        rep.quarantined = used;
        to_free.reserve(used);
        for k in 0..used {
            let i = *order.add(k) as usize;
            let s = *t.add(i);
            let bytes = std::slice::from_raw_parts(s.ptr as *const u8, s.size);
            if let Some(off) = bytes.iter().position(|&b| b != POISON) {
                if rep.damaged.len() < 16 {
                    rep.damaged.push((s.ptr, s.size, off, bytes[off]));
                }
            }
            to_free.push(s);
        }
        for k in 0..used {
            let i = *order.add(k) as usize;
            *t.add(i) = Slot {
                ptr: 0,
                size: 0,
                align: 0,
            };
        }
        USED.store(0, Ordering::Relaxed);
    }
    unlock();
    for s in to_free {
        unsafe {
            System.dealloc(
                s.ptr as *mut u8,
                Layout::from_size_align_unchecked(s.size, s.align),
            )
        };
    }
    rep
}
