//! One small deterministic PRNG (xoshiro256** seeded through splitmix64). Every random choice
//! of a run comes from streams derived from VERIF_SEED and the run index.

#[derive(Clone, Debug)]
pub struct Rng {
    s: [u64; 4],
}

pub fn splitmix(x: &mut u64) -> u64 {
    *x = x.wrapping_add(0x9E37_79B9_7F4A_7C15);
    let mut z = *x;
    z = (z ^ (z >> 30)).wrapping_mul(0xBF58_476D_1CE4_E5B9);
    z = (z ^ (z >> 27)).wrapping_mul(0x94D0_49BB_1331_11EB);
    z ^ (z >> 31)
}

impl Rng {
    pub fn new(seed: u64) -> Self {
        let mut x = seed;
        let s = [
            splitmix(&mut x),
            splitmix(&mut x),
            splitmix(&mut x),
            splitmix(&mut x),
        ];
        Rng { s }
    }

    /// Independent stream for a sub-purpose.
    pub fn fork(&mut self, tag: u64) -> Rng {
        let a = self.next_u64();
        Rng::new(a ^ tag.wrapping_mul(0xD6E8_FEB8_6659_FD93))
    }

    #[inline]
    pub fn next_u64(&mut self) -> u64 {
        let r = self.s[1].wrapping_mul(5).rotate_left(7).wrapping_mul(9);
        let t = self.s[1] << 17;
        self.s[2] ^= self.s[0];
        self.s[3] ^= self.s[1];
        self.s[1] ^= self.s[2];
        self.s[0] ^= self.s[3];
        self.s[2] ^= t;
        self.s[3] = self.s[3].rotate_left(45);
        r
    }

    /// Uniform in 0..n (n > 0).
    #[inline]
    pub fn below(&mut self, n: u64) -> u64 {
        debug_assert!(n > 0);
        ((self.next_u64() as u128 * n as u128) >> 64) as u64
    }

    #[inline]
    pub fn range(&mut self, lo: u64, hi_incl: u64) -> u64 {
        lo + self.below(hi_incl - lo + 1)
    }

    #[inline]
    pub fn usize(&mut self, n: usize) -> usize {
        self.below(n as u64) as usize
    }

    /// True with probability num/den.
    #[inline]
    pub fn chance(&mut self, num: u64, den: u64) -> bool {
        self.below(den) < num
    }

    pub fn pick<'a, T>(&mut self, xs: &'a [T]) -> &'a T {
        &xs[self.usize(xs.len())]
    }

    pub fn shuffle<T>(&mut self, xs: &mut [T]) {
        for i in (1..xs.len()).rev() {
            let j = self.usize(i + 1);
            xs.swap(i, j);
        }
    }
}

/// FNV-1a style running fingerprint used for the determinism self-check.
#[derive(Clone, Copy, Debug)]
pub struct Fp(pub u64);

impl Fp {
    pub fn new() -> Self {
        Fp(0xcbf2_9ce4_8422_2325)
    }
    #[inline]
    pub fn add(&mut self, x: u64) {
        let mut h = self.0;
        for i in 0..8 {
            h ^= (x >> (i * 8)) & 0xff;
            h = h.wrapping_mul(0x0000_0100_0000_01B3);
        }
        self.0 = h;
    }
}
