//! Instrumented key / value types, the instance ledger, and the deterministic hashers.

use crate::sched;
use std::borrow::Borrow;
use std::cell::Cell;
use std::hash::{BuildHasher, Hash, Hasher};
use std::sync::atomic::{AtomicU64, Ordering as AO};
use std::sync::Mutex;

pub const LIVE: u64 = 0x11FE_C0DE_11FE_C0DE;
pub const DEAD: u64 = 0xDEAD_0BAD_DEAD_0BAD;
pub const NONE: u32 = u32::MAX;

/// Number of `Ord::cmp` + `Eq::eq` calls on keys (C06 lookup-cost oracle).
pub static CMP_COUNT: AtomicU64 = AtomicU64::new(0);

#[derive(Clone, Debug)]
pub struct Inst {
    pub is_key: bool,
    /// key number or value id
    pub logical: u32,
    /// instance this one was cloned from
    pub parent: u32,
    pub created_clock: u64,
    pub created_thread: u8,
    pub drops: u32,
    pub drop_clock: u64,
    pub drop_thread: u8,
    pub drop_addr: usize,
    /// dropped while a run was active (as opposed to teardown)
    pub dropped_in_run: bool,
}

#[derive(Clone, Copy, Debug)]
pub struct ReadRec {
    pub clock: u64,
    pub thread: u8,
    pub inst: u32,
}

#[derive(Default)]
pub struct Ledger {
    pub insts: Vec<Inst>,
    pub reads: Vec<ReadRec>,
    pub violations: Vec<String>,
    pub log_reads: bool,
}

pub static LEDGER: Mutex<Ledger> = Mutex::new(Ledger {
    insts: Vec::new(),
    reads: Vec::new(),
    violations: Vec::new(),
    log_reads: false,
});

fn tid() -> u8 {
    sched::sim_id().map(|x| x as u8).unwrap_or(255)
}

pub fn ledger_reset(log_reads: bool) {
    let mut l = LEDGER.lock().unwrap();
    l.insts.clear();
    l.reads.clear();
    l.violations.clear();
    l.log_reads = log_reads;
}

fn new_inst(is_key: bool, logical: u32, parent: u32) -> u32 {
    let clock = sched::now();
    let mut l = LEDGER.lock().unwrap();
    let id = l.insts.len() as u32;
    l.insts.push(Inst {
        is_key,
        logical,
        parent,
        created_clock: clock,
        created_thread: tid(),
        drops: 0,
        drop_clock: 0,
        drop_thread: 0,
        drop_addr: 0,
        dropped_in_run: false,
    });
    id
}

fn on_drop(is_key: bool, inst: u32, logical: u32, canary: u64, addr: usize) {
    let clock = sched::now();
    let in_run = crate::alloc::is_active();
    if let Ok(w) = std::env::var("VERIF_BT") {
        if !is_key && w.parse::<u32>().ok() == Some(logical) {
            eprintln!("drop of value {} at clock {}:\n{}", logical, clock, std::backtrace::Backtrace::force_capture());
        }
    }
    let mut l = LEDGER.lock().unwrap();
    if canary != LIVE {
        let what = if canary == DEAD {
            "already-dropped"
        } else if canary == 0xDFDF_DFDF_DFDF_DFDF {
            "freed(poisoned)"
        } else {
            "corrupted"
        };
        let msg = format!(
            "drop of {} {} object at {:#x}: canary={:#x} inst={} logical={} clock={}",
            what,
            if is_key { "key" } else { "value" },
            addr & 0xfff,
            canary,
            inst,
            logical,
            clock
        );
        l.violations.push(msg);
        return;
    }
    let t = tid();
    match l.insts.get_mut(inst as usize) {
        Some(i) if i.is_key == is_key && i.logical == logical => {
            i.drops += 1;
            if i.drops > 1 {
                let msg = format!(
                    "{} instance {} (logical {}) dropped {} times (first clock {}, now clock {})",
                    if is_key { "key" } else { "value" },
                    inst,
                    logical,
                    i.drops,
                    i.drop_clock,
                    clock
                );
                l.violations.push(msg);
            } else {
                i.drop_clock = clock;
                i.drop_thread = t;
                i.drop_addr = addr;
                i.dropped_in_run = in_run;
            }
        }
        _ => {
            let msg = format!(
                "drop of unknown {} instance {} logical {}",
                if is_key { "key" } else { "value" },
                inst,
                logical
            );
            l.violations.push(msg);
        }
    }
}

/// The instance this one descends from through `Clone` (the map clones keys when it moves
/// entries between tables and bin kinds; identity of a stored key is judged modulo cloning).
pub fn root_of(inst: u32) -> u32 {
    let l = LEDGER.lock().unwrap();
    let mut i = inst;
    let mut guard = 0;
    while let Some(x) = l.insts.get(i as usize) {
        if x.parent == NONE || guard > 10_000 {
            break;
        }
        i = x.parent;
        guard += 1;
    }
    i
}

fn on_read(inst: u32) {
    let mut l = LEDGER.lock().unwrap();
    if l.log_reads {
        let clock = sched::now();
        l.reads.push(ReadRec {
            clock,
            thread: tid(),
            inst,
        });
    }
}

/* ------------------------------ Key ------------------------------ */

pub struct Key {
    pub k: u32,
    pub inst: u32,
    canary: u64,
}

/// Borrowed lookup form of a key: no instance, same Hash/Eq/Ord.
#[repr(transparent)]
pub struct KeyQ(pub u32);

impl Key {
    pub fn new(k: u32) -> Key {
        Key {
            k,
            inst: new_inst(true, k, NONE),
            canary: LIVE,
        }
    }

    /// Validated read of a key reference handed out by the map: (k, instance).
    pub fn read(&self) -> Result<(u32, u32), String> {
        let c = unsafe { std::ptr::read_volatile(&self.canary) };
        let k = unsafe { std::ptr::read_volatile(&self.k) };
        let inst = unsafe { std::ptr::read_volatile(&self.inst) };
        if c != LIVE {
            return Err(format!(
                "key reference reads canary {:#x} (k={:#x} inst={:#x}): {}",
                c,
                k,
                inst,
                describe_canary(c)
            ));
        }
        on_read(inst);
        Ok((k, root_of(inst)))
    }

    /// The raw instance id (not resolved through clones).
    pub fn raw_inst(&self) -> u32 {
        self.inst
    }
}

pub fn describe_canary(c: u64) -> &'static str {
    if c == DEAD {
        "object was dropped"
    } else if c == 0xDFDF_DFDF_DFDF_DFDF {
        "memory was freed"
    } else {
        "memory was overwritten"
    }
}

impl Clone for Key {
    fn clone(&self) -> Key {
        // cloning reads the payload (the map clones keys on the thread that migrates a bin)
        on_read(self.inst);
        Key {
            k: self.k,
            inst: new_inst(true, self.k, self.inst),
            canary: LIVE,
        }
    }
}

impl Drop for Key {
    fn drop(&mut self) {
        on_drop(true, self.inst, self.k, self.canary, self as *const Key as usize);
        unsafe { std::ptr::write_volatile(&mut self.canary, DEAD) };
    }
}

impl Borrow<KeyQ> for Key {
    fn borrow(&self) -> &KeyQ {
        // safety: KeyQ is repr(transparent) over u32
        unsafe { &*(&self.k as *const u32 as *const KeyQ) }
    }
}

macro_rules! key_impls {
    ($t:ty, $f:tt) => {
        impl Hash for $t {
            fn hash<H: Hasher>(&self, state: &mut H) {
                state.write_u32(self.$f);
            }
        }
        impl PartialEq for $t {
            fn eq(&self, o: &Self) -> bool {
                CMP_COUNT.fetch_add(1, AO::Relaxed);
                self.$f == o.$f
            }
        }
        impl Eq for $t {}
        impl PartialOrd for $t {
            fn partial_cmp(&self, o: &Self) -> Option<std::cmp::Ordering> {
                Some(self.cmp(o))
            }
        }
        impl Ord for $t {
            fn cmp(&self, o: &Self) -> std::cmp::Ordering {
                CMP_COUNT.fetch_add(1, AO::Relaxed);
                self.$f.cmp(&o.$f)
            }
        }
    };
}
key_impls!(Key, k);
key_impls!(KeyQ, 0);

impl std::fmt::Debug for Key {
    fn fmt(&self, f: &mut std::fmt::Formatter<'_>) -> std::fmt::Result {
        write!(f, "K{}", self.k)
    }
}

/* ------------------------------ Val ------------------------------ */

pub struct Val {
    pub id: u32,
    pub inst: u32,
    /// a counter payload (used by compute-increment workloads)
    pub n: u64,
    canary: u64,
}

impl Val {
    pub fn new(id: u32) -> Val {
        Val::with_n(id, 0)
    }
    pub fn with_n(id: u32, n: u64) -> Val {
        Val {
            id,
            inst: new_inst(false, id, NONE),
            n,
            canary: LIVE,
        }
    }

    /// Validated read of a value reference handed out by the map: (id, instance, n).
    pub fn read(&self) -> Result<(u32, u32, u64), String> {
        let c = unsafe { std::ptr::read_volatile(&self.canary) };
        let id = unsafe { std::ptr::read_volatile(&self.id) };
        let inst = unsafe { std::ptr::read_volatile(&self.inst) };
        let n = unsafe { std::ptr::read_volatile(&self.n) };
        if c != LIVE {
            return Err(format!(
                "value reference reads canary {:#x} (id={:#x} inst={:#x}): {}",
                c,
                id,
                inst,
                describe_canary(c)
            ));
        }
        on_read(inst);
        Ok((id, inst, n))
    }
}

impl Clone for Val {
    fn clone(&self) -> Val {
        on_read(self.inst);
        Val {
            id: self.id,
            inst: new_inst(false, self.id, self.inst),
            n: self.n,
            canary: LIVE,
        }
    }
}

impl Drop for Val {
    fn drop(&mut self) {
        on_drop(false, self.inst, self.id, self.canary, self as *const Val as usize);
        unsafe { std::ptr::write_volatile(&mut self.canary, DEAD) };
    }
}

impl PartialEq for Val {
    fn eq(&self, o: &Val) -> bool {
        self.id == o.id
    }
}
impl Eq for Val {}

impl std::fmt::Debug for Val {
    fn fmt(&self, f: &mut std::fmt::Formatter<'_>) -> std::fmt::Result {
        write!(f, "V{}", self.id)
    }
}

/* ------------------------------ hashers ------------------------------ */

#[derive(Clone, Copy, Debug, PartialEq, Eq)]
pub enum HashKind {
    /// well mixed, seeded
    Uniform(u64),
    /// every key has the same hash: tree bins ordered by key only
    Const,
    /// `(k % m) << 20`: one bin for every table below 2^20 bins holding m different hashes, each
    /// shared by many keys (a tree ordered by hash first and by key among equal hashes, where
    /// hash order and key order disagree)
    Mixed(u32),
    /// `k << 20`: one bin for every table below 2^20 bins, distinct hashes (tree ordered by hash)
    SameBin,
    /// only the top 16 bits vary
    HighBits,
    /// `hash = k`: collision-free for dense keys
    Identity,
    /// `hash = k % m`: groups of equal hashes spread over m bins
    Mod(u32),
    /// `hash = (k % m) << 16 | (k / m)`: m.. keys per low bin pattern that split late
    Split(u32),
}

impl HashKind {
    pub fn hash(self, k: u32) -> u64 {
        match self {
            HashKind::Uniform(seed) => {
                let mut x = (k as u64) ^ seed;
                crate::rng::splitmix(&mut x)
            }
            HashKind::Const => 0x42,
            HashKind::SameBin => (k as u64) << 20,
            HashKind::Mixed(m) => ((k % m.max(1)) as u64) << 20,
            HashKind::HighBits => (k as u64) << 48,
            HashKind::Identity => k as u64,
            HashKind::Mod(m) => (k % m.max(1)) as u64,
            HashKind::Split(m) => {
                let m = m.max(1);
                // low 4 bits identical within a group, next bits differ: keys share a bin in
                // a 16-bin table and are separated by later resizes
                ((k % m) as u64) | (((k / m) as u64) << 4)
            }
        }
    }

    pub fn name(self) -> String {
        match self {
            HashKind::Uniform(s) => format!("uniform:{}", s),
            HashKind::Const => "const".into(),
            HashKind::SameBin => "samebin".into(),
            HashKind::HighBits => "highbits".into(),
            HashKind::Identity => "identity".into(),
            HashKind::Mod(m) => format!("mod:{}", m),
            HashKind::Split(m) => format!("split:{}", m),
            HashKind::Mixed(m) => format!("mixed:{}", m),
        }
    }

    pub fn parse(s: &str) -> Option<HashKind> {
        let (a, b) = match s.split_once(':') {
            Some((a, b)) => (a, Some(b)),
            None => (s, None),
        };
        Some(match (a, b) {
            ("uniform", Some(b)) => HashKind::Uniform(b.parse().ok()?),
            ("const", _) => HashKind::Const,
            ("samebin", _) => HashKind::SameBin,
            ("highbits", _) => HashKind::HighBits,
            ("identity", _) => HashKind::Identity,
            ("mod", Some(b)) => HashKind::Mod(b.parse().ok()?),
            ("split", Some(b)) => HashKind::Split(b.parse().ok()?),
            ("mixed", Some(b)) => HashKind::Mixed(b.parse().ok()?),
            _ => return None,
        })
    }
}

thread_local! {
    /// what `SimBuild::default()` produces (needed by `FromIterator`, which builds its own hasher)
    pub static DEFAULT_HASH: Cell<HashKind> = const { Cell::new(HashKind::Identity) };
}

#[derive(Clone, Copy, Debug)]
pub struct SimBuild(pub HashKind);

impl Default for SimBuild {
    fn default() -> Self {
        SimBuild(DEFAULT_HASH.with(|c| c.get()))
    }
}

pub struct SimHasher {
    kind: HashKind,
    k: u32,
}

impl BuildHasher for SimBuild {
    type Hasher = SimHasher;
    fn build_hasher(&self) -> SimHasher {
        SimHasher { kind: self.0, k: 0 }
    }
}

impl Hasher for SimHasher {
    fn finish(&self) -> u64 {
        self.kind.hash(self.k)
    }
    fn write(&mut self, bytes: &[u8]) {
        for &b in bytes {
            self.k = self.k.wrapping_mul(31).wrapping_add(b as u32);
        }
    }
    fn write_u32(&mut self, i: u32) {
        self.k = i;
    }
}

pub type Map = flurry::HashMap<Key, Val, SimBuild>;
pub type Set = flurry::HashSet<Key, SimBuild>;

/* ------------------------------ serde (C19) ------------------------------ */

impl serde::Serialize for Key {
    fn serialize<S: serde::Serializer>(&self, s: S) -> Result<S::Ok, S::Error> {
        s.serialize_u32(self.k)
    }
}
impl<'de> serde::Deserialize<'de> for Key {
    fn deserialize<D: serde::Deserializer<'de>>(d: D) -> Result<Key, D::Error> {
        u32::deserialize(d).map(Key::new)
    }
}
impl serde::Serialize for Val {
    fn serialize<S: serde::Serializer>(&self, s: S) -> Result<S::Ok, S::Error> {
        s.serialize_u32(self.id)
    }
}
impl<'de> serde::Deserialize<'de> for Val {
    fn deserialize<D: serde::Deserializer<'de>>(d: D) -> Result<Val, D::Error> {
        u32::deserialize(d).map(Val::new)
    }
}
