//! Structural validation of a map dump (flurry::map::verif_inspect): the C05 well-formedness
//! conditions and the C06 red-black / list-agreement conditions. Stronger than flurry's own
//! `check_invariants` (which checks neither global ordering nor black height nor list/tree set
//! equality).

use crate::rng::Fp;
use crate::types::{HashKind, Key, SimBuild, Val};
use flurry::map_verif::{BinDump, Dump, NodeDump, TableDump};
use flurry::Guard;
use std::collections::BTreeMap;

pub trait VidOf {
    fn vid(&self) -> Result<u32, String>;
}
impl VidOf for Val {
    fn vid(&self) -> Result<u32, String> {
        self.read().map(|x| x.0)
    }
}
impl VidOf for () {
    fn vid(&self) -> Result<u32, String> {
        Ok(0)
    }
}

#[derive(Debug, Default, Clone)]
pub struct Report {
    pub table_len: usize,
    pub size_ctl: isize,
    pub transfer_index: isize,
    pub count: isize,
    pub next_table_null: bool,
    pub nodes: usize,
    /// (k, key instance, value id, bin index)
    pub entries: Vec<(u32, u32, u32, usize)>,
    pub bins_empty: usize,
    pub bins_list: usize,
    pub bins_tree: usize,
    pub bins_moved: usize,
    pub tree_sizes: Vec<usize>,
    pub tree_heights: Vec<usize>,
    pub max_list_len: usize,
    /// C05: placement, duplicates, leftover resize state, locks
    pub wellformed_errors: Vec<String>,
    /// C06: tree shape / list-tree agreement
    pub tree_errors: Vec<String>,
    /// C10: the growth threshold after the last resize (not part of C05)
    pub threshold_errors: Vec<String>,
    pub shape_fp: u64,
    pub locked_bins: usize,
    /// per bin: (kind: 0 empty, 1 list, 2 tree, 3 moved, 4 corrupt; node count)
    pub bins: Vec<(u8, usize)>,
}

/// Validates one tree bin. `strict_idle` additionally demands an idle lock word (quiescence).
pub fn check_tree<K, V>(
    nodes: &[NodeDump<'_, K, V>],
    root: usize,
    first: usize,
    key_of: &dyn Fn(&K) -> u32,
    errs: &mut Vec<String>,
    bin: usize,
) -> usize {
    let n = nodes.len();
    let idx: BTreeMap<usize, usize> = nodes.iter().enumerate().map(|(i, nd)| (nd.addr, i)).collect();
    if idx.len() != n {
        errs.push(format!("bin {}: traversal list visits a node twice", bin));
        return 0;
    }
    if n == 0 {
        if root != 0 {
            errs.push(format!("bin {}: empty traversal list but non-null root", bin));
        }
        return 0;
    }
    if first != nodes[0].addr {
        errs.push(format!("bin {}: `first` does not point at the head of the traversal list", bin));
    }
    for i in 0..n {
        let want_prev = if i == 0 { 0 } else { nodes[i - 1].addr };
        if nodes[i].prev != want_prev {
            errs.push(format!(
                "bin {}: list node #{} (key {}) has a `prev` link that does not match its predecessor",
                bin,
                i,
                key_of(nodes[i].key)
            ));
        }
    }
    let Some(&ri) = idx.get(&root) else {
        errs.push(format!("bin {}: root is null or not one of the {} list nodes", bin, n));
        return 0;
    };
    if nodes[ri].parent != 0 {
        errs.push(format!("bin {}: root has a parent", bin));
    }
    if nodes[ri].red {
        errs.push(format!("bin {}: root is red", bin));
    }
    // iterative in-order walk with parent/child consistency, colour and black-height checks
    let mut visited = vec![false; n];
    let mut count = 0usize;
    let mut inorder: Vec<usize> = Vec::with_capacity(n);
    let mut black_heights: Vec<usize> = Vec::new();
    let mut max_depth = 0usize;
    // stack of (node index, black count so far incl. node, depth, state)
    let mut stack: Vec<(usize, usize, usize, u8)> = vec![(ri, if nodes[ri].red { 0 } else { 1 }, 1, 0)];
    while let Some((i, bh, depth, state)) = stack.pop() {
        let nd = &nodes[i];
        if state == 0 {
            if visited[i] {
                errs.push(format!("bin {}: tree links form a cycle or a shared subtree at key {}", bin, key_of(nd.key)));
                return max_depth;
            }
            visited[i] = true;
            count += 1;
            max_depth = max_depth.max(depth);
            stack.push((i, bh, depth, 1));
            if nd.left != 0 {
                match idx.get(&nd.left) {
                    Some(&l) => {
                        if nodes[l].parent != nd.addr {
                            errs.push(format!("bin {}: left child of key {} does not point back to it", bin, key_of(nd.key)));
                        }
                        if nd.red && nodes[l].red {
                            errs.push(format!("bin {}: red node (key {}) has a red left child", bin, key_of(nd.key)));
                        }
                        stack.push((l, bh + if nodes[l].red { 0 } else { 1 }, depth + 1, 0));
                    }
                    None => errs.push(format!("bin {}: left link of key {} leaves the bin", bin, key_of(nd.key))),
                }
            } else {
                black_heights.push(bh);
            }
        } else {
            inorder.push(i);
            if nd.right != 0 {
                match idx.get(&nd.right) {
                    Some(&r) => {
                        if nodes[r].parent != nd.addr {
                            errs.push(format!("bin {}: right child of key {} does not point back to it", bin, key_of(nd.key)));
                        }
                        if nd.red && nodes[r].red {
                            errs.push(format!("bin {}: red node (key {}) has a red right child", bin, key_of(nd.key)));
                        }
                        stack.push((r, bh + if nodes[r].red { 0 } else { 1 }, depth + 1, 0));
                    }
                    None => errs.push(format!("bin {}: right link of key {} leaves the bin", bin, key_of(nd.key))),
                }
            } else {
                black_heights.push(bh);
            }
        }
    }
    if count != n {
        errs.push(format!(
            "bin {}: tree reaches {} nodes but the traversal list has {} (tree and list disagree)",
            bin, count, n
        ));
    }
    for w in inorder.windows(2) {
        let a = &nodes[w[0]];
        let b = &nodes[w[1]];
        let ka = (a.hash, key_of(a.key));
        let kb = (b.hash, key_of(b.key));
        if ka >= kb {
            errs.push(format!("bin {}: in-order walk is not increasing in (hash, key): {:?} before {:?}", bin, ka, kb));
            break;
        }
    }
    if let (Some(lo), Some(hi)) = (black_heights.iter().min(), black_heights.iter().max()) {
        if lo != hi {
            errs.push(format!("bin {}: black heights differ between root-to-nil paths ({}..{})", bin, lo, hi));
        }
    }
    max_depth
}

fn walk_table<V: VidOf>(
    t: &TableDump<'_, Key, V>,
    hash: HashKind,
    rep: &mut Report,
    quiescent: bool,
) {
    let n = t.bins.len();
    rep.table_len = n;
    let mut fp = Fp::new();
    if n == 0 || !n.is_power_of_two() {
        rep.wellformed_errors.push(format!("table length {} is not a power of two", n));
    }
    let key_of = |k: &Key| k.read().map(|x| x.0).unwrap_or(u32::MAX);
    for (i, b) in t.bins.iter().enumerate() {
        let nodes: &[NodeDump<'_, Key, V>] = match b {
            BinDump::Empty => {
                rep.bins.push((0, 0));
                rep.bins_empty += 1;
                fp.add(0);
                continue;
            }
            BinDump::Moved => {
                rep.bins.push((3, 0));
                rep.bins_moved += 1;
                fp.add(1);
                if quiescent {
                    rep.wellformed_errors.push(format!("bin {} still holds a forwarding marker", i));
                }
                continue;
            }
            BinDump::Corrupt(e) => {
                rep.bins.push((4, 0));
                rep.wellformed_errors.push(format!("bin {}: {}", i, e));
                continue;
            }
            BinDump::List { locked, nodes } => {
                rep.bins.push((1, nodes.len()));
                rep.bins_list += 1;
                fp.add(0x100 + nodes.len() as u64);
                rep.max_list_len = rep.max_list_len.max(nodes.len());
                if *locked {
                    rep.locked_bins += 1;
                    if quiescent {
                        rep.wellformed_errors.push(format!("bin {}: list-bin lock is held at quiescence", i));
                    }
                }
                nodes
            }
            BinDump::Tree {
                locked,
                lock_state,
                waiter_null,
                root,
                first,
                nodes,
                ..
            } => {
                rep.bins.push((2, nodes.len()));
                rep.bins_tree += 1;
                fp.add(0x10000 + nodes.len() as u64);
                rep.tree_sizes.push(nodes.len());
                if *locked {
                    rep.locked_bins += 1;
                }
                if quiescent {
                    if *locked {
                        rep.wellformed_errors.push(format!("bin {}: tree-bin lock is held at quiescence", i));
                    }
                    if *lock_state != 0 {
                        rep.wellformed_errors.push(format!("bin {}: tree lock word is {} at quiescence", i, lock_state));
                    }
                    if !*waiter_null {
                        rep.wellformed_errors.push(format!("bin {}: a waiter is registered at quiescence", i));
                    }
                }
                if quiescent || !*locked {
                    let h = check_tree(nodes, *root, *first, &key_of, &mut rep.tree_errors, i);
                    rep.tree_heights.push(h);
                    let nn = nodes.len();
                    let bound = 2.0 * ((nn + 1) as f64).log2();
                    if nn > 0 && (h as f64) > bound + 1e-9 {
                        rep.tree_errors.push(format!("bin {}: tree of {} nodes has height {} > 2*log2(n+1) = {:.2}", i, nn, h, bound));
                    }
                }
                nodes
            }
        };
        for nd in nodes {
            rep.nodes += 1;
            match nd.key.read() {
                Ok((k, kinst)) => {
                    let want = hash.hash(k);
                    if nd.hash != want {
                        rep.wellformed_errors.push(format!("bin {}: node for key {} stores hash {:#x}, hasher gives {:#x}", i, k, nd.hash, want));
                    }
                    if n.is_power_of_two() && (nd.hash as usize & (n - 1)) != i {
                        rep.wellformed_errors.push(format!("key {} (hash {:#x}) sits in bin {} of {}, lookups search bin {}", k, nd.hash, i, n, nd.hash as usize & (n - 1)));
                    }
                    let vid = match nd.value {
                        None => {
                            rep.wellformed_errors.push(format!("bin {}: node for key {} has a null value", i, k));
                            u32::MAX
                        }
                        Some(v) => v.vid().unwrap_or_else(|e| {
                            rep.wellformed_errors.push(format!("bin {}: value of key {}: {}", i, k, e));
                            u32::MAX
                        }),
                    };
                    rep.entries.push((k, kinst, vid, i));
                }
                Err(e) => rep.wellformed_errors.push(format!("bin {}: {}", i, e)),
            }
            if quiescent && nd.lock_held {
                rep.wellformed_errors.push(format!("bin {}: a node lock is held at quiescence", i));
            }
        }
    }
    rep.shape_fp = fp.0;
}

pub fn report_of_dump<V: VidOf>(d: &Dump<'_, Key, V>, hash: HashKind, quiescent: bool) -> Report {
    let mut rep = Report {
        size_ctl: d.size_ctl,
        transfer_index: d.transfer_index,
        count: d.count,
        next_table_null: d.map_next_table == 0,
        ..Default::default()
    };
    if let Some(t) = &d.table {
        walk_table(t, hash, &mut rep, quiescent);
        if quiescent {
            if t.bins.is_empty() {
                rep.wellformed_errors.push("allocated table with zero bins".into());
            }
            let n = t.bins.len() as isize;
            if d.size_ctl >= 0 && d.size_ctl != n - (n >> 2) {
                rep.threshold_errors.push(format!("size_ctl is {} at quiescence, expected 3/4 of table length {} = {}", d.size_ctl, n, n - (n >> 2)));
            }
        }
    }
    if quiescent {
        if d.map_next_table != 0 {
            rep.wellformed_errors.push("next_table is set at quiescence (half-finished resize)".into());
        }
        if d.size_ctl < 0 {
            rep.wellformed_errors.push(format!("size_ctl is {} (resizing/initialising) at quiescence", d.size_ctl));
        }
        // duplicates
        let mut ks: Vec<u32> = rep.entries.iter().map(|e| e.0).collect();
        ks.sort_unstable();
        for w in ks.windows(2) {
            if w[0] == w[1] {
                rep.wellformed_errors.push(format!("key {} is stored twice", w[0]));
            }
        }
        if d.count != rep.nodes as isize {
            rep.wellformed_errors.push(format!("element counter is {} but the table holds {} nodes", d.count, rep.nodes));
        }
    }
    rep
}

pub fn inspect_map<V: VidOf>(m: &flurry::HashMap<Key, V, SimBuild>, g: &Guard<'_>, hash: HashKind) -> Report {
    let d = m.verif_dump(g);
    report_of_dump(&d, hash, true)
}

/// Run-time invariant: every tree bin of the current and of the in-progress table whose bin lock
/// is free right now must be a valid red-black tree that agrees with its traversal list.
pub fn midrun_tree_errors<V: VidOf>(d: &Dump<'_, Key, V>, hash: HashKind) -> Vec<String> {
    let mut out = Vec::new();
    for t in [&d.table, &d.next].into_iter().flatten() {
        let mut rep = Report::default();
        walk_table(t, hash, &mut rep, false);
        out.extend(rep.tree_errors);
    }
    out
}

/// Every address a reader or writer that starts from the map's roots can reach by following
/// the pointers lookups, iterators and updates follow: tables, bin heads, `next`, `first`,
/// `root`, `left`, `right`, value pointers. (`parent`/`prev` are deliberately left out: they are
/// only followed by a writer that already holds the node.)
pub fn reachable_addresses<V>(d: &Dump<'_, Key, V>) -> std::collections::BTreeSet<usize> {
    let mut out = std::collections::BTreeSet::new();
    for t in [&d.table, &d.next].into_iter().flatten() {
        out.insert(t.addr);
        if t.next_table != 0 {
            out.insert(t.next_table);
        }
        for b in &t.bins {
            match b {
                BinDump::List { nodes, .. } => {
                    for n in nodes {
                        out.insert(n.addr);
                        out.insert(n.value_addr);
                        out.insert(n.next);
                    }
                }
                BinDump::Tree { addr, root, first, nodes, .. } => {
                    out.insert(*addr);
                    out.insert(*root);
                    out.insert(*first);
                    for n in nodes {
                        out.insert(n.addr);
                        out.insert(n.value_addr);
                        out.insert(n.next);
                        out.insert(n.left);
                        out.insert(n.right);
                    }
                }
                _ => {}
            }
        }
    }
    out.remove(&0);
    out
}

/// Where in the structure an address is referenced from (diagnostics for the retire probe).
pub fn describe_address<V>(d: &Dump<'_, Key, V>, addr: usize) -> String {
    let mut out = Vec::new();
    for (tname, t) in [("current table", &d.table), ("table under construction", &d.next)] {
        let Some(t) = t else { continue };
        if t.addr == addr {
            out.push(format!("it is the {}", tname));
        }
        if t.next_table == addr {
            out.push(format!("the {} forwards to it", tname));
        }
        for (i, b) in t.bins.iter().enumerate() {
            let (kind, nodes, extra): (&str, &Vec<NodeDump<'_, Key, V>>, Vec<(&str, usize)>) = match b {
                BinDump::List { nodes, .. } => ("list", nodes, vec![]),
                BinDump::Tree { addr: a, root, first, nodes, .. } => ("tree", nodes, vec![("bin head", *a), ("root", *root), ("first", *first)]),
                _ => continue,
            };
            for (what, a) in extra {
                if a == addr {
                    out.push(format!("{} of {} bin {} of the {}", what, kind, i, tname));
                }
            }
            for (j, n) in nodes.iter().enumerate() {
                let k = n.key.read().map(|x| x.0).unwrap_or(u32::MAX);
                for (what, a) in [("node", n.addr), ("value", n.value_addr), ("next", n.next), ("left", n.left), ("right", n.right)] {
                    if a == addr {
                        out.push(format!("{} of node #{} (key {}) in {} bin {} of the {}", what, j, k, kind, i, tname));
                    }
                }
            }
        }
    }
    out.join("; ")
}
