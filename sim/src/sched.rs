//! The deterministic scheduler.
//!
//! Logical threads are real OS threads taken from a persistent pool (seize keys its reservation
//! state on OS thread-locals, so coroutine schedulers would collapse it), but exactly one of
//! them holds the baton at any time. Every seam of flurry (`flurry::verif::Hooks`) is a decision
//! point at which the scheduler - driven by one PRNG stream or by a recorded trace - decides who
//! runs next. Nothing else in a run is nondeterministic.

use crate::rng::{Fp, Rng};
use flurry::verif::{Access, Ev, Hooks, Kind, Loc};
use std::cell::Cell;
use std::sync::atomic::{AtomicBool, AtomicU64, Ordering};
use std::sync::{Mutex, OnceLock};

/// most logical threads of one run (the crowd scenarios need more than 32 readers in one tree bin)
pub const MAXT: usize = 40;
/// the thread count the PRNG-driven strategy parameters were designed for (kept so that a seed
/// still means the same run)
pub const MAXT_CLASSIC: usize = 8;
pub const CTRL: usize = MAXT;
pub const NEV: usize = 32;

thread_local! {
    static SIM_ID: Cell<usize> = const { Cell::new(usize::MAX) };
    static IN_HARNESS: Cell<u32> = const { Cell::new(0) };
}

pub fn sim_id() -> Option<usize> {
    let i = SIM_ID.with(|c| c.get());
    if i == usize::MAX {
        None
    } else {
        Some(i)
    }
}

/// Suppresses all seams for the calling thread while the returned guard lives (harness code that
/// touches the map from inside a simulated thread: inspector, reference re-reads).
pub struct Quiet;
pub fn quiet() -> Quiet {
    IN_HARNESS.with(|c| c.set(c.get() + 1));
    Quiet
}
impl Drop for Quiet {
    fn drop(&mut self) {
        IN_HARNESS.with(|c| c.set(c.get() - 1));
    }
}

#[derive(Clone, Copy, PartialEq, Eq, Debug)]
pub enum St {
    Idle,
    Runnable,
    Blocked(usize),
    Parked,
    Finished,
}

#[derive(Clone, Copy, PartialEq, Eq, Debug)]
pub struct TE {
    pub clock: u64,
    /// 0 switch-to, 1 stall, 2 unstall, 3 spurious unpark
    pub kind: u8,
    pub thread: u8,
}

#[derive(Clone, Debug)]
pub enum Strategy {
    /// switch with probability p/1024 at every decision point
    Random { p: u64 },
    /// PCT-style: fixed priorities, `d` priority drops at random clocks
    Pct { prio: [u32; MAXT], points: Vec<u64>, low: u32 },
    /// switch with probability p_hot/1024 at hot sites, p_cold/1024 elsewhere
    Biased { hot: [bool; 256], p_hot: u64, p_cold: u64 },
    /// fair round robin, used for the tail of every run and on its own
    RoundRobin { quantum: u64, left: u64 },
    /// decisions come from a recorded trace
    Replay,
    /// a script of segments "run thread T until it passes site S for the n-th time (or finishes)":
    /// long uninterrupted runs with switches placed at chosen kinds of sites
    Script { segs: Vec<Seg>, cur: usize, hits: u32 },
}

#[derive(Clone, Copy, Debug)]
pub struct Seg {
    pub thread: u8,
    /// None = until the thread finishes or blocks
    pub site: Option<u8>,
    pub nth: u32,
}

#[derive(Clone, Debug, Default)]
pub struct Faults {
    /// stall the thread that is running at this clock (it is not scheduled again until nothing
    /// else can run, or until the adversarial budget is used up)
    pub stall_at: Vec<u64>,
    /// stall thread t when it reaches its k-th own decision point (C12 enumeration)
    pub stall_thread_at: Option<(usize, u64)>,
    /// per decision point probability (out of 1024) that a parked thread is woken spuriously
    pub spurious_unpark: u64,
}

#[derive(Clone, Debug, PartialEq, Eq)]
pub enum Verdict {
    Deadlock { states: Vec<String> },
    Livelock { clock: u64, states: Vec<String> },
    /// a thread that must not block reached a lock / park / spin seam
    ForbiddenBlock { thread: usize, what: &'static str, clock: u64 },
    OwnStepBound { thread: usize, steps: u64 },
}

#[derive(Clone, Copy, Debug)]
pub struct EventRec {
    pub clock: u64,
    pub thread: u8,
    pub ev: Ev,
    pub a: usize,
    pub b: usize,
}

#[derive(Clone, Copy, Debug)]
pub struct AccessRec {
    pub clock: u64,
    pub thread: u8,
    pub a: Access,
}

pub struct Inner {
    pub active: bool,
    pub n: usize,
    pub fp_trace: bool,
    pub st: [St; MAXT],
    pub stalled: [bool; MAXT],
    pub token: [bool; MAXT],
    pub cur: usize,
    pub clock: u64,
    pub rng: Rng,
    pub strat: Strategy,
    pub faults: Faults,
    pub trace: Vec<TE>,
    pub replay: Vec<TE>,
    pub rpos: usize,
    pub budget: u64,
    pub fair_bound: u64,
    pub fair_mode: bool,
    pub fp: Fp,
    pub sched_fp: Fp,
    pub switches: u64,
    pub switches_in_op: u64,
    pub own_steps: [u64; MAXT],
    /// decision points of the operation in flight (reset at every operation start)
    pub op_steps: [u64; MAXT],
    pub forbid_block: [bool; MAXT],
    pub own_step_bound: [u64; MAXT],
    pub in_op: [bool; MAXT],
    pub events: Vec<EventRec>,
    pub ev_count: [u64; NEV],
    pub fault_fired: [u64; 8],
    pub verdict: Option<Verdict>,
    pub ncpu: Option<usize>,
    pub min_stride: Option<isize>,
    /// record every completed access (C15 / C09 monitors)
    pub log_access: bool,
    pub accesses: Vec<AccessRec>,
    pub lock_contended: u64,
    pub max_runnable: usize,
    pub panics: Vec<(usize, String)>,
}

pub const F_PREEMPT: usize = 0;
pub const F_CONTENTION: usize = 1;
pub const F_STALL: usize = 2;
pub const F_SPURIOUS: usize = 3;
pub const F_UNSTALL: usize = 4;

impl Inner {
    fn new() -> Self {
        Inner {
            active: false,
            n: 0,
            fp_trace: std::env::var("VERIF_FPTRACE").is_ok(),
            st: [St::Idle; MAXT],
            stalled: [false; MAXT],
            token: [false; MAXT],
            cur: CTRL,
            clock: 0,
            rng: Rng::new(0),
            strat: Strategy::Random { p: 100 },
            faults: Faults::default(),
            trace: Vec::new(),
            replay: Vec::new(),
            rpos: 0,
            budget: 100_000,
            fair_bound: 50_000,
            fair_mode: false,
            fp: Fp::new(),
            sched_fp: Fp::new(),
            switches: 0,
            switches_in_op: 0,
            own_steps: [0; MAXT],
            op_steps: [0; MAXT],
            forbid_block: [false; MAXT],
            own_step_bound: [u64::MAX; MAXT],
            in_op: [false; MAXT],
            events: Vec::new(),
            ev_count: [0; NEV],
            fault_fired: [0; 8],
            verdict: None,
            ncpu: None,
            min_stride: None,
            log_access: false,
            accesses: Vec::new(),
            lock_contended: 0,
            max_runnable: 0,
            panics: Vec::new(),
        }
    }

    fn eligible(&self, t: usize) -> bool {
        t < self.n && self.st[t] == St::Runnable && !self.stalled[t]
    }

    fn describe(&self) -> Vec<String> {
        (0..self.n)
            .map(|t| format!("t{}:{:?}{}", t, self.st[t], if self.stalled[t] { "(stalled)" } else { "" }))
            .collect()
    }

    fn record(&mut self, kind: u8, thread: usize) {
        self.trace.push(TE {
            clock: self.clock,
            kind,
            thread: thread as u8,
        });
        let fd = TRACE_FD.load(Ordering::Relaxed);
        if fd >= 0 {
            let line = format!("T {} {} {}\n", self.clock, kind, thread);
            unsafe {
                libc::write(fd, line.as_ptr() as *const libc::c_void, line.len());
            }
        }
    }

    /// One decision point. `me` is the thread that reached it (CTRL for the start of a run),
    /// `can_continue` says whether `me` may keep running. Returns the thread to run next, or
    /// CTRL when the run is over (everything finished, or a verdict was reached).
    fn decide(&mut self, me: usize, site: u8, can_continue: bool) -> usize {
        self.clock += 1;
        let clock = self.clock;
        CLOCK.store(clock, Ordering::Relaxed);
        if me < MAXT {
            self.own_steps[me] += 1;
            self.op_steps[me] += 1;
            if self.op_steps[me] > self.own_step_bound[me] && self.verdict.is_none() {
                self.verdict = Some(Verdict::OwnStepBound {
                    thread: me,
                    steps: self.op_steps[me],
                });
                return CTRL;
            }
        }
        self.fp.add(clock ^ ((me as u64) << 48) ^ ((site as u64) << 56));
        if self.fp_trace {
            eprintln!("FP {} d clock={} me={} site={}", crate::CUR_INDEX.load(Ordering::Relaxed), clock, me, site);
            if let Ok(w) = std::env::var("VERIF_BTCLOCK") {
                let mut it = w.split(':');
                if it.next().and_then(|x| x.parse::<u64>().ok()) == Some(crate::CUR_INDEX.load(Ordering::Relaxed)) && it.next().and_then(|x| x.parse::<u64>().ok()) == Some(clock) {
                    eprintln!("BT at clock {}:\n{}", clock, std::backtrace::Backtrace::force_capture());
                }
            }
        }

        // end of the adversarial phase: faults stop, scheduling becomes fair
        if !self.fair_mode && clock > self.budget {
            self.fair_mode = true;
            for t in 0..self.n {
                self.stalled[t] = false;
            }
            if !matches!(self.strat, Strategy::Replay) {
                self.strat = Strategy::RoundRobin { quantum: 25, left: 25 };
            }
        }
        if clock > self.budget + self.fair_bound {
            if self.verdict.is_none() {
                self.verdict = Some(Verdict::Livelock {
                    clock,
                    states: self.describe(),
                });
            }
            return CTRL;
        }

        let replaying = matches!(self.strat, Strategy::Replay);
        let mut chosen: Option<usize> = None;

        if replaying {
            while self.rpos < self.replay.len() && self.replay[self.rpos].clock < clock {
                self.rpos += 1;
            }
            while self.rpos < self.replay.len() && self.replay[self.rpos].clock == clock {
                let e = self.replay[self.rpos];
                self.rpos += 1;
                let t = e.thread as usize;
                if t >= self.n {
                    continue;
                }
                match e.kind {
                    0 => chosen = Some(t),
                    1 => {
                        if !self.fair_mode {
                            self.stalled[t] = true;
                            self.fault_fired[F_STALL] += 1;
                            self.record(1, t);
                        }
                    }
                    2 => {
                        if self.stalled[t] {
                            self.stalled[t] = false;
                            self.fault_fired[F_UNSTALL] += 1;
                            self.record(2, t);
                        }
                    }
                    3 => {
                        if self.st[t] == St::Parked {
                            self.st[t] = St::Runnable;
                            self.fault_fired[F_SPURIOUS] += 1;
                            self.record(3, t);
                        }
                    }
                    _ => {}
                }
            }
        } else if !self.fair_mode {
            // fault injection
            if me < MAXT {
                if let Some((t, k)) = self.faults.stall_thread_at {
                    if t == me && self.own_steps[me] == k && !self.stalled[me] {
                        self.stalled[me] = true;
                        self.fault_fired[F_STALL] += 1;
                        self.record(1, me);
                    }
                }
                if self.faults.stall_at.contains(&clock) && !self.stalled[me] {
                    self.stalled[me] = true;
                    self.fault_fired[F_STALL] += 1;
                    self.record(1, me);
                }
            }
            if self.faults.spurious_unpark > 0 {
                for t in 0..self.n {
                    if self.st[t] == St::Parked && self.rng.below(1024) < self.faults.spurious_unpark {
                        self.st[t] = St::Runnable;
                        self.fault_fired[F_SPURIOUS] += 1;
                        self.record(3, t);
                    }
                }
            }
        }

        let me_ok = can_continue && me < MAXT && self.eligible(me);
        let mut elig: [usize; MAXT] = [0; MAXT];
        let mut ne = 0;
        for t in 0..self.n {
            if self.eligible(t) {
                elig[ne] = t;
                ne += 1;
            }
        }
        if ne > self.max_runnable {
            self.max_runnable = ne;
        }

        if ne == 0 || (site == SITE_SPIN && ne == 1 && elig[0] == me) {
            // nothing can run (or the only runnable thread spins waiting for someone):
            // release a stalled thread if there is one
            let mut released = None;
            for t in 0..self.n {
                if self.stalled[t] && self.st[t] == St::Runnable {
                    released = Some(t);
                    break;
                }
            }
            if let Some(t) = released {
                self.stalled[t] = false;
                self.fault_fired[F_UNSTALL] += 1;
                self.record(2, t);
                return self.switch_to(me, t);
            }
            if ne == 1 {
                return self.switch_to(me, me);
            }
            if (0..self.n).all(|t| self.st[t] == St::Finished) {
                return CTRL;
            }
            if self.verdict.is_none() {
                self.verdict = Some(Verdict::Deadlock {
                    states: self.describe(),
                });
            }
            return CTRL;
        }

        let next = if replaying {
            match chosen {
                Some(t) if self.eligible(t) => t,
                _ => {
                    if me_ok {
                        me
                    } else {
                        elig[0]
                    }
                }
            }
        } else {
            self.choose(me, me_ok, site, &elig[..ne])
        };
        self.switch_to(me, next)
    }

    fn switch_to(&mut self, me: usize, next: usize) -> usize {
        if next != me {
            self.record(0, next);
            self.switches += 1;
            if me < MAXT && self.in_op[me] && self.st[me] == St::Runnable {
                self.switches_in_op += 1;
                self.fault_fired[F_PREEMPT] += 1;
            }
            self.sched_fp.add(self.clock.wrapping_mul(31) ^ next as u64);
        }
        self.cur = next;
        next
    }

    fn choose(&mut self, me: usize, me_ok: bool, site: u8, elig: &[usize]) -> usize {
        let spin = site == SITE_SPIN;
        let clock = self.clock;
        match &mut self.strat {
            Strategy::Random { p } => {
                let p = *p;
                if me_ok && !(spin && elig.len() > 1) && (elig.len() == 1 || self.rng.below(1024) >= p) {
                    return me;
                }
                let others: Vec<usize> = elig.iter().copied().filter(|&t| t != me || !me_ok).collect();
                if others.is_empty() {
                    return me;
                }
                others[self.rng.usize(others.len())]
            }
            Strategy::Biased { hot, p_hot, p_cold } => {
                let p = if hot[site as usize] { *p_hot } else { *p_cold };
                if me_ok && !(spin && elig.len() > 1) && (elig.len() == 1 || self.rng.below(1024) >= p) {
                    return me;
                }
                let others: Vec<usize> = elig.iter().copied().filter(|&t| t != me || !me_ok).collect();
                if others.is_empty() {
                    return me;
                }
                others[self.rng.usize(others.len())]
            }
            Strategy::Pct { prio, points, low } => {
                if me < MAXT {
                    let mut drop = spin;
                    while let Some(&c) = points.last() {
                        if c <= clock {
                            points.pop();
                            drop = true;
                        } else {
                            break;
                        }
                    }
                    if drop {
                        *low = low.saturating_sub(1);
                        // classic PCT drops to the lowest priority; every other time re-draw a
                        // random rank instead, which also reaches orders like "A pauses, B runs to
                        // completion, A resumes before C"
                        prio[me] = if spin || self.rng.below(2) == 0 { *low } else { 1000 + self.rng.below(MAXT_CLASSIC as u64 * 4) as u32 };
                    }
                }
                let mut best = elig[0];
                for &t in elig {
                    if prio[t] > prio[best] {
                        best = t;
                    }
                }
                best
            }
            Strategy::RoundRobin { quantum, left } => {
                if me_ok && *left > 0 && !spin {
                    *left -= 1;
                    return me;
                }
                *left = *quantum;
                // next eligible after me, cyclically
                let start = if me < MAXT { me + 1 } else { 0 };
                for k in 0..MAXT {
                    let t = (start + k) % MAXT;
                    if elig.contains(&t) {
                        return t;
                    }
                }
                elig[0]
            }
            Strategy::Replay => unreachable!(),
            Strategy::Script { segs, cur, hits } => {
                loop {
                    let Some(seg) = segs.get(*cur).copied() else { break };
                    let t = seg.thread as usize;
                    if !elig.contains(&t) {
                        *cur += 1;
                        *hits = 0;
                        continue;
                    }
                    if t == me && me_ok {
                        if seg.site == Some(site) {
                            *hits += 1;
                            if *hits >= seg.nth {
                                *cur += 1;
                                *hits = 0;
                                continue;
                            }
                        }
                        if spin && elig.len() > 1 {
                            *cur += 1;
                            *hits = 0;
                            continue;
                        }
                        return me;
                    }
                    return t;
                }
                // script exhausted: finish fairly
                if me_ok && !spin {
                    return me;
                }
                let others: Vec<usize> = elig.iter().copied().filter(|&t| t != me || !me_ok).collect();
                if others.is_empty() {
                    return me;
                }
                others[self.rng.usize(others.len())]
            }
        }
    }
}

pub const SITE_OPSTART: u8 = 200;
pub const SITE_OPEND: u8 = 201;
pub const SITE_LOCK: u8 = 202;
pub const SITE_BLOCKED: u8 = 203;
pub const SITE_PARK: u8 = 204;
pub const SITE_SPIN: u8 = 205;
pub const SITE_FINISH: u8 = 206;
pub const SITE_START: u8 = 207;
pub const SITE_EV0: u8 = 64;

pub fn site_of_access(a: &Access) -> u8 {
    if a.collector == usize::MAX - 1 {
        return SITE_LOCK;
    }
    (a.loc as u8) * 8 + (a.kind as u8)
}

pub fn site_name(s: u8) -> String {
    match s {
        SITE_OPSTART => "op-start".into(),
        SITE_OPEND => "op-end".into(),
        SITE_LOCK => "lock-attempt".into(),
        SITE_BLOCKED => "lock-blocked".into(),
        SITE_PARK => "park".into(),
        SITE_SPIN => "spin".into(),
        SITE_FINISH => "finish".into(),
        SITE_START => "start".into(),
        s if s >= SITE_EV0 && (s - SITE_EV0) < NEV as u8 => format!("ev{}", s - SITE_EV0),
        s => format!("{}-{}", ["ptr", "ctl", "lockstate"][(s / 8) as usize % 3], s % 8),
    }
}

struct Parker {
    flag: AtomicBool,
    thread: OnceLock<std::thread::Thread>,
}

#[allow(clippy::declare_interior_mutable_const)]
const PARKER: Parker = Parker {
    flag: AtomicBool::new(false),
    thread: OnceLock::new(),
};
static PARKERS: [Parker; MAXT + 1] = [PARKER; MAXT + 1];

fn wait_baton(i: usize) {
    while !PARKERS[i].flag.swap(false, Ordering::Acquire) {
        std::thread::park();
    }
}

fn wake(i: usize) {
    PARKERS[i].flag.store(true, Ordering::Release);
    PARKERS[i].thread.get().expect("parker registered").unpark();
}

type Job = Box<dyn FnOnce() + Send + 'static>;

pub struct Sched {
    pub inner: Mutex<Inner>,
    jobs: [Mutex<Option<Job>>; MAXT],
}

static SCHED: OnceLock<Sched> = OnceLock::new();
pub static RUNS_DONE: AtomicU64 = AtomicU64::new(0);
/// Mirror of the logical clock of the current run, readable from anywhere without locking.
pub static CLOCK: AtomicU64 = AtomicU64::new(0);
/// When >= 0 every trace entry is also written to this file descriptor the moment it is
/// recorded (unbuffered), so that the schedule of a run that crashes the process survives.
pub static TRACE_FD: std::sync::atomic::AtomicI32 = std::sync::atomic::AtomicI32::new(-1);

pub fn sched() -> &'static Sched {
    SCHED.get().expect("scheduler initialised")
}

/// Creates the scheduler, the thread pool and installs the hooks. Call once from the thread
/// that will act as controller.
pub fn init() {
    if SCHED.get().is_some() {
        return;
    }
    let s = Sched {
        inner: Mutex::new(Inner::new()),
        jobs: std::array::from_fn(|_| Mutex::new(None)),
    };
    let _ = SCHED.set(s);
    let _ = PARKERS[CTRL].thread.set(std::thread::current());
    // seize numbers threads in the order of their first use of any collector, and a collector
    // that is dropped frees its per-thread leftovers in that order: fix the numbering here
    // (controller first, then the pool threads in index order) instead of leaving it to whichever
    // run happens to come first in this process
    touch_seize();
    for i in 0..MAXT {
        let (tx, rx) = std::sync::mpsc::channel();
        std::thread::Builder::new()
            .name(format!("sim{}", i))
            .stack_size(8 << 20)
            .spawn(move || {
                let _ = PARKERS[i].thread.set(std::thread::current());
                touch_seize();
                SIM_ID.with(|c| c.set(i));
                tx.send(()).unwrap();
                pool_main(i);
            })
            .expect("spawn pool thread");
        // threads are created strictly one after the other so that seize hands out thread ids
        // in the same order in every process
        rx.recv().unwrap();
    }
    flurry::verif::install(&HOOKS);
}

fn touch_seize() {
    let c = seize::Collector::new();
    drop(c.enter());
}

fn pool_main(i: usize) {
    loop {
        wait_baton(i);
        let job = sched().jobs[i].lock().unwrap().take();
        if let Some(job) = job {
            let r = std::panic::catch_unwind(std::panic::AssertUnwindSafe(job));
            let next = {
                let mut g = sched().inner.lock().unwrap();
                if let Err(p) = r {
                    let msg = if let Some(s) = p.downcast_ref::<&str>() {
                        s.to_string()
                    } else if let Some(s) = p.downcast_ref::<String>() {
                        s.clone()
                    } else {
                        "non-string panic".to_string()
                    };
                    g.panics.push((i, msg));
                }
                g.st[i] = St::Finished;
                g.in_op[i] = false;
                g.decide(i, SITE_FINISH, false)
            };
            wake(next);
        }
    }
}

pub struct RunSetup {
    pub seed: u64,
    pub strat: Strategy,
    pub faults: Faults,
    pub replay: Vec<TE>,
    pub budget: u64,
    pub fair_bound: u64,
    pub ncpu: Option<usize>,
    pub min_stride: Option<isize>,
    pub log_access: bool,
    pub forbid_block: [bool; MAXT],
    pub own_step_bound: [u64; MAXT],
}

impl RunSetup {
    pub fn new(seed: u64) -> Self {
        RunSetup {
            seed,
            strat: Strategy::Random { p: 100 },
            faults: Faults::default(),
            replay: Vec::new(),
            budget: 150_000,
            fair_bound: 50_000,
            ncpu: None,
            min_stride: None,
            log_access: false,
            forbid_block: [false; MAXT],
            own_step_bound: [u64::MAX; MAXT],
        }
    }
}

pub struct RunOutcome {
    pub clock: u64,
    pub trace: Vec<TE>,
    pub fp: u64,
    pub sched_fp: u64,
    pub switches: u64,
    pub switches_in_op: u64,
    pub events: Vec<EventRec>,
    pub ev_count: [u64; NEV],
    pub fault_fired: [u64; 8],
    pub verdict: Option<Verdict>,
    pub accesses: Vec<AccessRec>,
    pub lock_contended: u64,
    pub max_runnable: usize,
    pub panics: Vec<(usize, String)>,
    pub own_steps: [u64; MAXT],
    pub fair_mode: bool,
    /// threads still inside the simulation when the run was cut (deadlock/livelock): the process
    /// cannot be reused afterwards
    pub wedged: bool,
}

/// Runs the given jobs (one per logical thread) to completion under the scheduler.
/// The closures may borrow from the caller's stack: this function does not return before all of
/// them have finished, unless the run ends with a verdict that leaves threads wedged, in which
/// case the caller must report and exit the process.
pub fn run<'a>(setup: RunSetup, jobs: Vec<Box<dyn FnOnce() + Send + 'a>>) -> RunOutcome {
    let s = sched();
    let n = jobs.len();
    assert!(n <= MAXT && n > 0);
    for (i, j) in jobs.into_iter().enumerate() {
        // safety: see doc comment; lifetime erased, we wait for completion below
        let j: Job = unsafe { std::mem::transmute::<Box<dyn FnOnce() + Send + 'a>, Job>(j) };
        *s.jobs[i].lock().unwrap() = Some(j);
    }
    let first = {
        let mut g = s.inner.lock().unwrap();
        let mut fresh = Inner::new();
        // keep allocations
        std::mem::swap(&mut fresh.trace, &mut g.trace);
        std::mem::swap(&mut fresh.events, &mut g.events);
        std::mem::swap(&mut fresh.accesses, &mut g.accesses);
        fresh.trace.clear();
        fresh.events.clear();
        fresh.accesses.clear();
        *g = fresh;
        CLOCK.store(0, Ordering::Relaxed);
        g.active = true;
        g.n = n;
        for t in 0..n {
            g.st[t] = St::Runnable;
        }
        g.rng = Rng::new(setup.seed ^ 0x5eed_5c4e_d000_0001);
        g.strat = if setup.replay.is_empty() && !matches!(setup.strat, Strategy::Replay) {
            setup.strat
        } else {
            Strategy::Replay
        };
        g.replay = setup.replay;
        g.faults = setup.faults;
        g.budget = setup.budget;
        g.fair_bound = setup.fair_bound;
        g.ncpu = setup.ncpu;
        g.min_stride = setup.min_stride;
        g.log_access = setup.log_access;
        g.forbid_block = setup.forbid_block;
        g.own_step_bound = setup.own_step_bound;
        g.decide(CTRL, SITE_START, false)
    };
    if first != CTRL {
        wake(first);
        wait_baton(CTRL);
    }
    let mut g = s.inner.lock().unwrap();
    g.active = false;
    let wedged = !(0..n).all(|t| g.st[t] == St::Finished);
    RUNS_DONE.fetch_add(1, Ordering::Relaxed);
    RunOutcome {
        clock: g.clock,
        trace: g.trace.clone(),
        fp: g.fp.0,
        sched_fp: g.sched_fp.0,
        switches: g.switches,
        switches_in_op: g.switches_in_op,
        events: g.events.clone(),
        ev_count: g.ev_count,
        fault_fired: g.fault_fired,
        verdict: g.verdict.clone(),
        accesses: std::mem::take(&mut g.accesses),
        lock_contended: g.lock_contended,
        max_runnable: g.max_runnable,
        panics: g.panics.clone(),
        own_steps: g.own_steps,
        fair_mode: g.fair_mode,
        wedged,
    }
}

/// A decision point reached by the calling simulated thread that may continue afterwards.
fn yield_point(me: usize, site: u8) -> u64 {
    let (next, clock) = {
        let mut g = sched().inner.lock().unwrap();
        let next = g.decide(me, site, true);
        (next, g.clock)
    };
    if next != me {
        wake(next);
        wait_baton(me);
    }
    clock
}

/// Logical time stamp for an operation boundary; also a decision point.
pub fn op_start() -> u64 {
    match sim_id() {
        Some(me) => {
            let c = yield_point(me, SITE_OPSTART);
            let mut g = sched().inner.lock().unwrap();
            g.in_op[me] = true;
            g.op_steps[me] = 0;
            c
        }
        None => 0,
    }
}

pub fn op_end() -> u64 {
    match sim_id() {
        Some(me) => {
            sched().inner.lock().unwrap().in_op[me] = false;
            yield_point(me, SITE_OPEND)
        }
        None => 0,
    }
}

/// Harness-level waiting (the simulated thread pool of the C19 scenarios): the calling simulated
/// thread blocks on `addr` until some thread calls `harness_wake(addr)`; callers re-check their
/// condition in a loop. Same mechanics as waiting for a bin lock, without the lock statistics.
pub fn harness_block(addr: usize) {
    let me = match sim_id() {
        Some(m) => m,
        None => return,
    };
    let next = {
        let mut g = sched().inner.lock().unwrap();
        g.st[me] = St::Blocked(addr);
        g.decide(me, SITE_BLOCKED, false)
    };
    if next != me {
        wake(next);
        wait_baton(me);
    }
}

pub fn harness_wake(addr: usize) {
    if sim_id().is_none() {
        return;
    }
    let mut g = sched().inner.lock().unwrap();
    for t in 0..g.n {
        if g.st[t] == St::Blocked(addr) {
            g.st[t] = St::Runnable;
        }
    }
}

/// Current logical clock without a decision point (for ledger stamps).
pub fn now() -> u64 {
    CLOCK.load(Ordering::Relaxed)
}

struct SimHooks;
static HOOKS: SimHooks = SimHooks;

impl Hooks for SimHooks {
    #[inline]
    fn managed(&self) -> bool {
        SIM_ID.with(|c| c.get()) != usize::MAX && IN_HARNESS.with(|c| c.get()) == 0
    }

    fn access(&self, a: &Access) {
        let me = sim_id().unwrap();
        if !a.done {
            yield_point(me, site_of_access(a));
        } else {
            let mut g = sched().inner.lock().unwrap();
            if g.log_access {
                let clock = g.clock;
                g.accesses.push(AccessRec {
                    clock,
                    thread: me as u8,
                    a: *a,
                });
            }
        }
    }

    fn lock_blocked(&self, addr: usize) {
        let me = sim_id().unwrap();
        let next = {
            let mut g = sched().inner.lock().unwrap();
            g.lock_contended += 1;
            g.fault_fired[F_CONTENTION] += 1;
            g.st[me] = St::Blocked(addr);
            if g.forbid_block[me] && g.verdict.is_none() {
                let clock = g.clock;
                g.verdict = Some(Verdict::ForbiddenBlock {
                    thread: me,
                    what: "lock",
                    clock,
                });
            }
            g.decide(me, SITE_BLOCKED, false)
        };
        if next != me {
            wake(next);
            wait_baton(me);
        }
    }

    fn event(&self, ev: Ev, a: usize, b: usize) {
        let me = sim_id().unwrap();
        if ev == Ev::Retire {
            let _q = quiet();
            crate::exec::retire_probe(a);
        }
        {
            let mut g = sched().inner.lock().unwrap();
            let clock = g.clock;
            g.ev_count[ev as usize % NEV] += 1;
            match ev {
                Ev::LockReleased => {
                    for t in 0..g.n {
                        if g.st[t] == St::Blocked(a) {
                            g.st[t] = St::Runnable;
                        }
                    }
                }
                Ev::LockAcquired => {
                    if g.forbid_block[me] && g.verdict.is_none() {
                        g.verdict = Some(Verdict::ForbiddenBlock {
                            thread: me,
                            what: "lock",
                            clock,
                        });
                    }
                }
                _ => {}
            }
            match ev {
                // not logged individually: too frequent and carry raw addresses
                Ev::LockAcquired | Ev::LockReleased | Ev::Retire => {
                    if g.log_access {
                        g.events.push(EventRec {
                            clock,
                            thread: me as u8,
                            ev,
                            a,
                            b,
                        });
                    }
                }
                _ => {
                    g.events.push(EventRec {
                        clock,
                        thread: me as u8,
                        ev,
                        a,
                        b,
                    });
                    // `b` of these two is a table address: never part of a fingerprint
                    let bb = if matches!(ev, Ev::ResizeStarted | Ev::Published) { 0 } else { b as u64 & 0xff };
                    g.fp.add(0xE000_0000_0000_0000 | ((ev as u64) << 32) | (a as u64 & 0xffff) << 8 | bb);
                    if g.fp_trace {
                        eprintln!("FP {} e clock={} me={} ev={:?} a={} bb={}", crate::CUR_INDEX.load(Ordering::Relaxed), clock, me, ev, a & 0xffff, bb);
                    }
                }
            }
        }
        yield_point(me, SITE_EV0 + (ev as u8 % NEV as u8));
    }

    fn park(&self) {
        let me = sim_id().unwrap();
        let next = {
            let mut g = sched().inner.lock().unwrap();
            if g.forbid_block[me] && g.verdict.is_none() {
                let clock = g.clock;
                g.verdict = Some(Verdict::ForbiddenBlock {
                    thread: me,
                    what: "park",
                    clock,
                });
            }
            if g.token[me] {
                g.token[me] = false;
                return;
            }
            g.st[me] = St::Parked;
            g.decide(me, SITE_PARK, false)
        };
        if next != me {
            wake(next);
            wait_baton(me);
        }
        let mut g = sched().inner.lock().unwrap();
        g.token[me] = false;
    }

    fn unpark(&self, token: usize) {
        let mut g = sched().inner.lock().unwrap();
        if token < MAXT {
            g.token[token] = true;
            if g.st[token] == St::Parked {
                g.st[token] = St::Runnable;
            }
        }
    }

    fn current(&self) -> usize {
        sim_id().unwrap()
    }

    fn spin(&self) {
        let me = sim_id().unwrap();
        {
            let mut g = sched().inner.lock().unwrap();
            if g.forbid_block[me] && g.verdict.is_none() {
                let clock = g.clock;
                g.verdict = Some(Verdict::ForbiddenBlock {
                    thread: me,
                    what: "spin",
                    clock,
                });
            }
        }
        yield_point(me, SITE_SPIN);
    }

    fn ncpu(&self) -> Option<usize> {
        sched().inner.lock().unwrap().ncpu
    }

    fn min_stride(&self) -> Option<isize> {
        sched().inner.lock().unwrap().min_stride
    }
}

#[allow(dead_code)]
pub fn kind_is_write(k: Kind) -> bool {
    !matches!(k, Kind::Load)
}
#[allow(dead_code)]
pub fn loc_name(l: Loc) -> &'static str {
    match l {
        Loc::Ptr => "ptr",
        Loc::Ctl => "ctl",
        Loc::LockState => "lockstate",
    }
}
