//! Per-property plans: what is generated, which faults are injected, which oracles judge.

use crate::exec::{ExecOpts, RunResult};
use crate::gen::{self, GenCfg, Mix, Shape};
use crate::oracle::{self, IterStats, LinStats, ResizeStats, Violation};
use crate::orch::Agg;
use crate::program::*;
use crate::rng::Rng;
use crate::sched::{RunSetup, Strategy, MAXT};
use crate::types::HashKind;

pub const SIM_PROPS: [&str; 15] = ["C01", "C03", "C04", "C05", "C06", "C07", "C08", "C10", "C11", "C12", "C13", "C14", "C15", "C18", "C19"];

pub struct Plan {
    pub program: Program,
    pub setup: RunSetup,
    pub opts: ExecOpts,
}

pub fn implemented(prop: &str) -> bool {
    SIM_PROPS.contains(&prop) || prop == "C02"
}

pub fn gencfg(prop: &str, tier: &str, rng: &mut Rng) -> GenCfg {
    let mut g = GenCfg::base();
    let thorough = tier == "thorough";
    if thorough {
        g.threads = (2, 5);
        g.ops = (2, 9);
        g.hot_keys = (1, 6);
    }
    let everything = Mix {
        get: 3,
        contains: 1,
        getkv: 2,
        insert: 5,
        try_insert: 2,
        remove: 4,
        remove_entry: 2,
        compute_replace: 2,
        compute_inc: 1,
        compute_remove: 2,
        retain: 1,
        retain_force: 1,
        clear: 1,
        reserve: 1,
        len: 1,
        iter_all: 1,
        iter_step: 3,
        extend: 1,
        collect: 0,
    };
    match prop {
        "C01" => {
            g.mix = Mix::per_key();
        }
        "C03" if rng.chance(1, 8) => {
            // clear-heavy family: a clear that races a resize while others re-populate bins it has
            // already swept (the composition behind finding F8), on tables about to grow, with
            // hashes whose bins are split by the resize
            g.mix = Mix::zero();
            g.mix.clear = 4;
            g.mix.insert = 8;
            g.mix.extend = 3;
            g.mix.try_insert = 1;
            g.mix.get = 2;
            g.mix.iter_all = 2;
            g.mix.retain = 1;
            g.mix.remove = 1;
            g.swarm = false;
            g.pressure = true;
            g.hold_guard = 20;
            g.allow_set = false;
            g.threads = (3, 5);
            g.ops = (3, 9);
            g.hot_keys = (3, 8);
            g.shapes = vec![Shape::AtThreshold, Shape::AtThreshold, Shape::Tiny, Shape::TreeAtThreshold];
            g.hashes = vec![HashKind::Identity, HashKind::Split(2), HashKind::Split(3), HashKind::Mod(4)];
        }
        "C03" | "C04" => {
            g.mix = everything;
            g.mix.collect = 2;
            g.pressure = true;
            g.hold_guard = 55;
            g.allow_set = prop == "C04";
        }
        "C05" => {
            g.mix = everything;
        }
        "C06" => {
            g.mix = Mix::per_key();
            g.mix.insert = 8;
            g.mix.remove = 8;
            g.mix.compute_remove = 2;
            g.mix.reserve = 1;
            g.shapes = vec![Shape::Tree, Shape::TreeShrunk, Shape::AlmostTree, Shape::TreeAtThreshold, Shape::BigTree, Shape::BigTree];
            g.hot_keys = (3, 10);
            g.ops = (3, 10);
            g.allow_set = false;
        }
        "C07" => {
            g.mix = Mix::zero();
            g.mix.iter_step = 10;
            g.mix.iter_all = 2;
            g.mix.insert = 5;
            g.mix.remove = 3;
            g.mix.compute_remove = 1;
            g.mix.compute_replace = 1;
            g.mix.reserve = 1;
            g.swarm = false;
            g.ops = (3, 10);
            g.shapes = vec![Shape::Plain, Shape::AtThreshold, Shape::AtThreshold, Shape::Tiny, Shape::Tiny, Shape::Tree, Shape::TreeShrunk, Shape::AlmostTree, Shape::TreeAtThreshold];
        }
        "C08" => {
            g.mix = Mix::zero();
            g.mix.compute_inc = 10;
            g.mix.compute_replace = 2;
            g.mix.compute_remove = 1;
            g.mix.insert = 2;
            g.mix.remove = 1;
            g.mix.get = 1;
            g.hot_keys = (1, 3);
            g.ops = (2, 8);
            g.allow_set = false;
            if rng.chance(1, 2) {
                // pure counters: closed form applies
                g.mix = Mix::zero();
                g.mix.compute_inc = 10;
                g.mix.get = 1;
                g.swarm = false;
                g.shapes = vec![Shape::Plain, Shape::AtThreshold, Shape::Tree, Shape::TreeShrunk, Shape::AlmostTree];
            }
        }
        "C10" => {
            g.mix = Mix::zero();
            g.mix.insert = 10;
            g.mix.try_insert = 2;
            g.mix.reserve = 2;
            g.mix.remove = 2;
            g.mix.compute_remove = 1;
            g.mix.clear = 1;
            g.mix.get = 1;
            g.mix.extend = 1;
            g.shapes = vec![Shape::AtThreshold, Shape::AtThreshold, Shape::Tiny, Shape::Tiny, Shape::TreeAtThreshold, Shape::Unallocated];
            g.threads = (2, 5);
            g.hot_keys = (3, 8);
            g.ops = (2, 8);
        }
        "C11" => {
            g.mix = everything;
            g.mix.iter_step = 1;
            g.shapes = vec![Shape::Tree, Shape::Tree, Shape::TreeShrunk, Shape::AlmostTree, Shape::Unallocated, Shape::Unallocated, Shape::AtThreshold, Shape::Tiny, Shape::TreeAtThreshold];
            g.threads = (2, 5);
        }
        "C13" => {
            g.mix = Mix::zero();
            g.mix.retain = 5;
            g.mix.retain_force = 3;
            g.mix.insert = 6;
            g.mix.remove = 2;
            g.mix.compute_replace = 2;
            g.mix.get = 1;
            g.swarm = false;
            g.allow_set = true;
            g.hot_keys = (1, 4);
            g.shapes = vec![Shape::Plain, Shape::AtThreshold, Shape::Tree, Shape::Tree, Shape::Tree, Shape::TreeShrunk, Shape::AlmostTree, Shape::TreeAtThreshold];
        }
        "C15" => {
            g.mix = everything;
            g.mix.collect = 0;
            g.mix.len = 0;
            g.mix.reserve = 1;
            g.allow_set = true;
            g.hold_guard = 40;
        }
        "C19" => {
            g.mix = Mix::per_key();
            g.mix.iter_all = 1;
            g.mix.clear = 0;
            g.ops = (0, 4);
            g.threads = (2, 5);
            g.allow_set = true;
            g.shapes = vec![Shape::Plain, Shape::AtThreshold, Shape::AtThreshold, Shape::Tiny, Shape::Tiny, Shape::Tree, Shape::AlmostTree, Shape::AlmostTree, Shape::TreeAtThreshold, Shape::Unallocated, Shape::Unallocated];
        }
        "C14" if rng.chance(1, 2) => {
            // growth side: inserting programs whose key universe bounds the entry count
            g.mix = Mix::zero();
            g.mix.insert = 6;
            g.mix.try_insert = 2;
            g.mix.remove = 3;
            g.mix.compute_remove = 2;
            g.mix.compute_replace = 1;
            g.mix.get = 2;
            g.mix.iter_all = 1;
            g.mix.clear = 1;
            g.swarm = false;
            g.hashes = vec![HashKind::Identity];
            g.shapes = vec![Shape::Plain, Shape::Plain, Shape::AtThreshold, Shape::AtThreshold, Shape::Unallocated];
            g.hot_keys = (2, 8);
            g.threads = (2, 5);
            g.allow_set = true;
        }
        "C14" => {
            g.mix = Mix::zero();
            g.mix.remove = 5;
            g.mix.remove_entry = 2;
            g.mix.compute_remove = 5;
            g.mix.retain = 1;
            g.mix.retain_force = 1;
            g.mix.clear = 1;
            g.mix.get = 2;
            g.mix.iter_all = 1;
            g.shapes = vec![Shape::AtThreshold, Shape::Plain, Shape::Tree, Shape::TreeShrunk, Shape::TreeAtThreshold, Shape::Tiny];
            g.allow_set = true;
        }
        _ => {}
    }
    if thorough && matches!(prop, "C01" | "C03" | "C04" | "C05" | "C07" | "C10" | "C11" | "C15") && rng.chance(1, 10) {
        // deeper bounds, thorough tier only: more threads, longer programs, more hot keys (so
        // that per-key histories stay short enough for the linearizability search)
        g.threads = (5, 8);
        g.ops = (6, 16);
        g.hot_keys = (6, 14);
    }
    g
}

fn base_plan(prop: &str, tier: &str, run_seed: u64) -> Plan {
    let mut rng = Rng::new(run_seed);
    let mut crng = rng.fork(3);
    let gc = gencfg(prop, tier, &mut crng);
    let mut prng = rng.fork(1);
    let scripted = matches!(prop, "C01" | "C03" | "C05" | "C06" | "C07" | "C11") && (crng.chance(1, 12) || std::env::var("VERIF_SCRIPTED").is_ok());
    let program = if scripted {
        gen::gen_shrinking_tree_race(&mut prng, prop != "C01")
    } else if prop == "C19" {
        gen::gen_par_program(&mut prng, &gc)
    } else {
        gen::gen_program(&mut prng, &gc)
    };
    // crowd scenarios: more simultaneous readers in one tree bin than ordinary programs have threads
    let crowd = matches!(prop, "C01" | "C05" | "C11") && !scripted && (crng.chance(1, 40) || std::env::var("VERIF_CROWD").is_ok());
    let (program, crowd_script) = if crowd {
        let (p, s) = gen::gen_crowd(&mut prng);
        (p, Some(s))
    } else {
        (program, None)
    };
    let helper_crowd = prop == "C10" && !scripted && (crng.chance(1, 40) || std::env::var("VERIF_CROWD").is_ok());
    let program = if helper_crowd { gen::gen_helper_crowd(&mut prng) } else { program };
    let mut srng = rng.fork(2);
    let (stall_pct, spurious) = match prop {
        "C01" => (15, false),
        "C11" => (25, true),
        "C10" | "C07" => (20, false),
        _ => (10, false),
    };
    let mut setup = gen::gen_setup(&mut srng, run_seed, &program, stall_pct, spurious);
    if helper_crowd {
        setup.strat = Strategy::Random { p: *srng.pick(&[50u64, 200, 350, 512]) };
        setup.budget = setup.budget.max(60_000);
    }
    if let Some(cs) = crowd_script {
        setup.strat = cs;
        setup.faults.stall_at.clear();
        setup.budget = setup.budget.max(40_000);
    } else if scripted && srng.chance(1, 2) {
        setup.strat = gen::shrinking_tree_script(&mut srng, program.threads.len());
    } else if matches!(prop, "C03" | "C04") && program.threads.len() >= 2 && srng.chance(1, 4) {
        setup.strat = gen::retire_race_script(&mut srng, program.threads.len());
    }
    let mut opts = ExecOpts::default();
    if prop == "C06" {
        opts.lookup_cost = true;
        opts.midrun_every = Some(1 + (run_seed % 3) as u32);
    }
    if prop == "C10" {
        opts.post_growth = true;
    }
    if prop == "C03" && (run_seed % 3 == 0 || gc.mix.clear == 4) {
        opts.retire_check = true;
    }
    if prop == "C15" {
        opts.log_reads = true;
        setup.log_access = true;
    }
    Plan { program, setup, opts }
}

/// The reader operations C12 speaks about.
fn c12_reader_ops(rng: &mut Rng, keys: &[u32]) -> Vec<Op> {
    let mut ops = Vec::new();
    let n = rng.range(1, 4);
    for _ in 0..n {
        let k = *rng.pick(keys);
        ops.push(match rng.below(8) {
            0 => Op::Get(k),
            1 => Op::GetKV(k),
            2 => Op::Contains(k),
            3 => Op::IterAll(IterKind::Iter),
            4 => Op::IterAll(*rng.pick(&[IterKind::Keys, IterKind::Values])),
            5 => Op::Len,
            6 => rng.pick(&[Op::EqSelf, Op::Rel(0), Op::Rel(2), Op::Rel(5), Op::Rel(6), Op::Rel(7)]).clone(),
            _ => Op::Get(k),
        });
    }
    ops
}

/// All plans of one run index. Most properties have exactly one; the enumerating properties
/// (C12: stall point of the writer, C18: which callback panics) first execute a dry run through
/// `dry` to learn how many points there are and then return one plan per point.
pub fn plans(prop: &str, tier: &str, run_seed: u64, dry: &mut dyn FnMut(&Plan) -> RunResult) -> Vec<Plan> {
    match prop {
        "C12" => {
            let mut rng = Rng::new(run_seed);
            let mut gc = GenCfg::base();
            gc.mix = Mix {
                insert: 6,
                remove: 4,
                remove_entry: 1,
                compute_replace: 1,
                compute_remove: 2,
                clear: 1,
                reserve: 1,
                try_insert: 1,
                extend: 1,
                ..Mix::zero()
            };
            gc.threads = (1, 1);
            gc.ops = (1, 2);
            gc.hot_keys = (2, 5);
            gc.hold_guard = 0;
            gc.allow_set = true;
            gc.swarm = false;
            gc.shapes = vec![Shape::Plain, Shape::AtThreshold, Shape::Tiny, Shape::Tree, Shape::Tree, Shape::TreeShrunk, Shape::AlmostTree, Shape::TreeAtThreshold, Shape::Unallocated, Shape::BigTree];
            let mut prng = rng.fork(1);
            let mut program = gen::gen_program(&mut prng, &gc);
            let mut keys: Vec<u32> = crate::exec::universe(&program);
            if keys.is_empty() {
                keys.push(1);
            }
            keys.push(keys[0] + 1000);
            let two_writers = tier == "thorough" && rng.chance(1, 3);
            if two_writers {
                let mut p2 = gen::gen_program(&mut prng, &gc);
                // value ids must stay unique across the whole program
                let ops2: Vec<Op> = p2
                    .threads
                    .remove(0)
                    .into_iter()
                    .map(|o| match o {
                        Op::Insert(k, v) => Op::Insert(k, v + 50_000),
                        Op::TryInsert(k, v) => Op::TryInsert(k, v + 50_000),
                        Op::Compute(k, c, v) => Op::Compute(k, c, v + 50_000),
                        Op::Extend(kv) => Op::Extend(kv.into_iter().map(|(k, v)| (k + 1_000, v + 50_000)).collect()),
                        o => o,
                    })
                    .collect();
                program.threads.push(ops2);
                program.cfg.facade.push(Facade::Guarded);
            }
            // variant: the thread that is stalled is itself a reader (it may be inside a tree bin
            // holding the read lock), a writer then runs until it finishes or waits for it, and a
            // second reader is the one under test
            let reader_first = rng.chance(1, 3);
            if reader_first {
                let r1: Vec<Op> = (0..rng.range(1, 2)).map(|_| {
                    let k = *rng.pick(&keys);
                    if rng.chance(1, 2) { Op::Get(k) } else { Op::Contains(k) }
                }).collect();
                program.threads.insert(0, r1);
                program.cfg.facade.insert(0, Facade::Guarded);
            }
            let reader = c12_reader_ops(&mut rng, &keys);
            program.threads.push(reader);
            program.cfg.facade.push(*rng.pick(&[Facade::Guarded, Facade::Pinned]));
            let reader_t = program.threads.len() - 1;
            let mk = |stall: Option<(usize, u64)>, stall2: Option<u64>| -> Plan {
                let mut s = RunSetup::new(run_seed);
                // writers first (highest priority), reader last: the reader runs exactly when the
                // writers are stalled
                let mut prio = [0u32; MAXT];
                for t in 0..MAXT {
                    prio[t] = 1000 - t as u32;
                }
                s.strat = Strategy::Pct { prio, points: vec![], low: 500 };
                s.faults.stall_thread_at = stall;
                if let Some(c) = stall2 {
                    s.faults.stall_at.push(c);
                }
                s.forbid_block[reader_t] = true;
                s.own_step_bound[reader_t] = 20_000;
                Plan { program: program.clone(), setup: s, opts: ExecOpts::default() }
            };
            let dry_plan = mk(None, None);
            let r = dry(&dry_plan);
            let n = r.outcome.own_steps[0];
            let mut out = Vec::new();
            if two_writers {
                // second writer stalled at a random clock while the first is stalled at point i
                let total = r.outcome.clock;
                for i in 1..=n {
                    let c = 2 + rng.below(total.max(3) - 2);
                    out.push(mk(Some((0, i)), Some(c)));
                }
            } else {
                for i in 1..=n {
                    out.push(mk(Some((0, i)), None));
                }
            }
            out
        }
        "C18" => {
            let mut rng = Rng::new(run_seed);
            let mut gc = GenCfg::base();
            gc.mix = Mix {
                compute_replace: 4,
                compute_inc: 2,
                compute_remove: 3,
                retain: 3,
                retain_force: 2,
                insert: 3,
                remove: 2,
                get: 1,
                iter_all: 1,
                ..Mix::zero()
            };
            gc.threads = (1, 3);
            gc.ops = (2, 6);
            gc.hot_keys = (2, 5);
            gc.swarm = false;
            gc.shapes = vec![Shape::Plain, Shape::Plain, Shape::Tree, Shape::TreeShrunk, Shape::AlmostTree, Shape::AtThreshold];
            let mut prng = rng.fork(1);
            let program = gen::gen_program(&mut prng, &gc);
            let mut srng = rng.fork(2);
            let base = gen::gen_setup(&mut srng, run_seed, &program, 0, false);
            let mk = |panic_at: Option<u64>| -> Plan {
                let mut s = RunSetup::new(run_seed);
                s.strat = base.strat.clone();
                s.faults = base.faults.clone();
                Plan { program: program.clone(), setup: s, opts: ExecOpts { panic_at, ..ExecOpts::default() } }
            };
            let r = dry(&mk(None));
            let c = r.callbacks;
            (1..=c).map(|i| mk(Some(i))).collect()
        }
        _ => vec![base_plan(prop, tier, run_seed)],
    }
}

/// Single plan (first of the index) for tools that only want to look at a program.
pub fn plan(prop: &str, tier: &str, run_seed: u64) -> Plan {
    match prop {
        "C12" | "C18" => {
            let mut dry = |p: &Plan| {
                let s = clone_setup(&p.setup);
                crate::exec::execute(&p.program, s, &p.opts)
            };
            plans(prop, tier, run_seed, &mut dry).into_iter().next().unwrap_or_else(|| base_plan("C01", tier, run_seed))
        }
        _ => base_plan(prop, tier, run_seed),
    }
}

pub fn clone_setup(s: &RunSetup) -> RunSetup {
    RunSetup {
        seed: s.seed,
        strat: s.strat.clone(),
        faults: s.faults.clone(),
        replay: s.replay.clone(),
        budget: s.budget,
        fair_bound: s.fair_bound,
        ncpu: s.ncpu,
        min_stride: s.min_stride,
        log_access: s.log_access,
        forbid_block: s.forbid_block,
        own_step_bound: s.own_step_bound,
    }
}

#[derive(Default)]
pub struct JudgeStats {
    pub lin_keys: usize,
    pub lin_ops: usize,
    pub lin_states: usize,
    pub lin_max_ops: usize,
    pub lin_skipped: usize,
    pub extra: std::collections::BTreeMap<String, u64>,
}

impl JudgeStats {
    fn bump(&mut self, k: &str, n: u64) {
        *self.extra.entry(k.to_string()).or_insert(0) += n;
    }
    fn max(&mut self, k: &str, n: u64) {
        let e = self.extra.entry(k.to_string()).or_insert(0);
        *e = (*e).max(n);
    }
}

fn run_lin(p: &Program, r: &RunResult, js: &mut JudgeStats) -> Vec<Violation> {
    run_lin_f(p, r, js, oracle::Flavour::Point)
}

fn run_lin_f(p: &Program, r: &RunResult, js: &mut JudgeStats, fl: oracle::Flavour) -> Vec<Violation> {
    let mut ls = LinStats { keys_checked: 0, ops_checked: 0, states_explored: 0, max_ops_per_key: 0, skipped_keys: 0 };
    let out = oracle::linearizability(p, r, &mut ls, fl);
    js.lin_keys += ls.keys_checked;
    js.lin_ops += ls.ops_checked;
    js.lin_states += ls.states_explored;
    js.lin_max_ops = js.lin_max_ops.max(ls.max_ops_per_key);
    js.lin_skipped += ls.skipped_keys;
    out
}

/// The oracles of one property applied to one run.
pub fn judge(prop: &str, p: &Program, r: &RunResult, opts: &ExecOpts, js: &mut JudgeStats) -> Vec<Violation> {
    let mut out = Vec::new();
    out.extend(oracle::verdicts(r));
    if r.outcome.wedged {
        return out;
    }
    out.extend(oracle::basic(r, opts.panic_at.is_some()));
    out.extend(oracle::relations(p, r));
    if p.threads.len() > crate::sched::MAXT_CLASSIC && prop == "C10" {
        js.bump("helper_crowd_runs", 1);
    } else if p.threads.len() > crate::sched::MAXT_CLASSIC {
        // crowd scenario: how many readers were inside the tree bin's read section when the first
        // writer announced itself
        use flurry::verif::Ev;
        let mut inside = 0u64;
        for e in &r.outcome.events {
            match e.ev {
                Ev::ReaderTreePath => inside += 1,
                Ev::WriterSetWaiter => break,
                _ => {}
            }
        }
        js.bump("crowd_runs", 1);
        js.max("max_readers_inside_one_tree_bin_when_a_writer_arrived", inside);
        if inside >= 32 {
            js.bump("crowd_runs_with_32_or_more_readers_inside", 1);
        }
    }
    match prop {
        "C01" => out.extend(run_lin(p, r, js)),
        "C03" => {
            out.extend(oracle::memory(r));
            out.extend(oracle::collects(r));
            js.bump("references_checked", r.refs_checked);
            js.bump("retirements_checked_for_reachability", r.retire_checks);
        }
        "C04" => {
            out.extend(oracle::drops(r));
            js.bump("instances", r.insts.len() as u64);
            js.bump("instances_cloned_by_map", r.insts.iter().filter(|i| i.parent != crate::types::NONE).count() as u64);
            js.bump("instances_dropped_during_run", r.insts.iter().filter(|i| i.dropped_in_run).count() as u64);
            js.bump("refused_values_returned", r.history.iter().filter(|h| matches!(h.res, crate::exec::Res::TryErr { .. })).count() as u64);
            for h in &r.history {
                if let crate::exec::Res::TryErr { back_ok: false, .. } = h.res {
                    out.push(Violation { class: "refused-value-damaged".into(), detail: format!("t{} op{} {:?}: the refused value did not come back intact", h.thread, h.idx, h.op) });
                }
            }
        }
        "C05" => out.extend(oracle::quiescent_consistency(p, r)),
        "C06" => {
            out.extend(oracle::trees(r));
            let mut checked = 0usize;
            let mut max_seen = 0u64;
            out.extend(oracle::lookup_cost(p, r, &mut checked, &mut max_seen));
            js.bump("tree_lookups_cost_checked", checked as u64);
            js.bump("midrun_tree_validations", r.midrun_checks);
            js.max("max_comparisons_in_a_tree_lookup", max_seen);
            if let Some(rep) = &r.quiescent.inspect {
                js.bump("tree_bins_validated", rep.tree_sizes.len() as u64);
                js.max("largest_tree_bin", rep.tree_sizes.iter().copied().max().unwrap_or(0) as u64);
            }
        }
        "C07" => {
            js.bump("tree_bins_emptied_by_removal", r.outcome.events.iter().filter(|e| e.ev == flurry::verif::Ev::UntreeifiedOnRemove && e.b == 1).count() as u64);
            out.extend(run_lin_f(p, r, js, oracle::Flavour::Iter));
            let mut st = IterStats { iterations: 0, complete: 0, stable_keys_checked: 0, overlapped_by_resize: 0, overlapped_by_writes: 0 };
            out.extend(oracle::iterators(p, r, &mut st));
            js.bump("iterations", st.iterations as u64);
            js.bump("iterations_complete", st.complete as u64);
            js.bump("iterations_overlapped_by_resize", st.overlapped_by_resize as u64);
            js.bump("iterations_overlapped_by_writes", st.overlapped_by_writes as u64);
            js.bump("stable_keys_checked", st.stable_keys_checked as u64);
        }
        "C08" => {
            out.extend(run_lin(p, r, js));
            let mut c = 0usize;
            out.extend(oracle::counters(p, r, &mut c));
            js.bump("pure_counter_keys_checked", c as u64);
        }
        "C10" => {
            // migration must preserve the contents: no entry lost, duplicated or misplaced by a resize
            out.extend(run_lin(p, r, js));
            out.extend(oracle::quiescent_consistency(p, r).into_iter().filter(|v| !v.detail.contains("is held at quiescence")));
            let mut rs = ResizeStats::default();
            out.extend(oracle::resizes(r, &mut rs));
            js.bump("resize_generations", rs.generations as u64);
            js.bump("generations_with_2_or_more_helpers", rs.multi_helper_generations as u64);
            js.max("max_helpers_in_one_resize", rs.max_helpers as u64);
            if let Some((l0, l1, n, sc)) = r.quiescent.post_growth {
                js.bump("post_run_growth_probes", 1);
                if l1 == l0 {
                    out.push(Violation { class: "later-growth-broken".into(), detail: format!("after the run the table of {} bins did not grow although {} further entries were inserted", l0, n) });
                } else if l0 > 0 && !(l1 % l0 == 0 && (l1 / l0).is_power_of_two()) {
                    // several generations may run back to back (an overfull bin in a table shorter
                    // than 64 asks for 8x), each of them doubling
                    out.push(Violation { class: "later-growth-broken".into(), detail: format!("after the run the table grew from {} to {} bins (not a chain of doublings)", l0, l1) });
                } else if sc != (l1 as isize) - ((l1 as isize) >> 2) {
                    out.push(Violation { class: "wrong-threshold".into(), detail: format!("after growing to {} bins the next threshold is {} (expected three quarters = {})", l1, sc, (l1 as isize) - ((l1 as isize) >> 2)) });
                }
            }
            // no leftover resize state (subset of C05 that C10 states itself)
            if let Some(rep) = &r.quiescent.inspect {
                for e in &rep.wellformed_errors {
                    if e.contains("next_table") || e.contains("size_ctl") || e.contains("forwarding marker") {
                        out.push(Violation { class: "leftover-resize-state".into(), detail: e.clone() });
                    }
                }
                for e in &rep.threshold_errors {
                    out.push(Violation { class: "wrong-threshold".into(), detail: e.clone() });
                }
            }
        }
        "C11" => {}
        "C12" => {
            out.extend(run_lin(p, r, js));
            out.extend(run_lin_f(p, r, js, oracle::Flavour::Iter));
        }
        "C13" => {
            out.extend(run_lin(p, r, js));
            for e in &r.outcome.events {
                if e.ev == flurry::verif::Ev::RetainCompareFailed {
                    js.bump(if e.a == 1 { "retain_skipped_replaced_value_in_tree_bin" } else { "retain_skipped_replaced_value_in_list_bin" }, 1);
                }
            }
        }
        "C14" => {
            out.extend(oracle::no_growth_on_removal(p, r));
            let g = oracle::growth_justified(p, r);
            if p.cfg.hash == HashKind::Identity {
                js.bump("runs_judged_for_justified_growth", 1);
                if r.outcome.events.iter().any(|e| e.ev == flurry::verif::Ev::ResizeStarted) {
                    js.bump("runs_judged_for_justified_growth_that_resized", 1);
                }
            }
            out.extend(g);
            // the growth rule's input: at quiescence the entry counter equals the entries held
            // (a drifted counter is a spurious or a missing growth waiting to happen)
            if let Some(rep) = &r.quiescent.inspect {
                if rep.table_len > 0 && rep.count != rep.nodes as isize {
                    out.push(Violation { class: "entry-count-drift".into(), detail: format!("at quiescence the entry counter is {} but the table holds {} entries", rep.count, rep.nodes) });
                }
            }
        }
        "C15" => {
            let mut hs = oracle::HbStats::default();
            out.extend(oracle::happens_before(r, &mut hs));
            js.bump("cross_thread_payload_reads_checked", hs.cross_thread_reads);
            js.bump("cross_thread_reads_of_clones_made_by_a_third_thread", hs.reads_of_map_made_clones);
            js.bump("same_thread_payload_reads", hs.same_thread_reads);
            js.bump("reads_of_prepopulated_payloads", hs.prepop_reads);
            js.bump("acquire_edges_taken", hs.acquire_edges);
            js.bump("lock_edges_taken", hs.lock_edges);
            js.bump("release_stores", hs.release_stores);
            js.bump("relaxed_stores", hs.relaxed_stores);
        }
        "C18" => {
            out.extend(run_lin(p, r, js));
            out.extend(oracle::quiescent_consistency(p, r));
            out.extend(oracle::panic_propagation(r, opts));
        }
        "C19" => {
            // every item of a parallel bulk insertion is an insert of unknown return value that
            // takes effect between the call and its return; the final state is part of the history
            out.extend(run_lin(p, r, js));
            out.extend(oracle::quiescent_consistency(p, r));
            out.extend(oracle::par_collects(r));
            out.extend(oracle::memory(r));
            out.extend(oracle::drops(r));
            js.bump("parts_published_to_the_pool", r.par[0]);
            js.bump("parts_run_by_a_helper_thread", r.par[1]);
            js.bump("parts_run_by_the_publishing_thread", r.par[2]);
            js.bump("publisher_waited_for_a_part_in_flight", r.par[3]);
            js.bump("parallel_bulk_operations", r.history.iter().filter(|h| matches!(h.op, Op::ParExtend(..) | Op::ParCollect(..))).count() as u64);
            js.bump("parallel_collects", r.history.iter().filter(|h| matches!(h.op, Op::ParCollect(..))).count() as u64);
            js.bump("runs_without_background_operations", p.threads.iter().all(|t| t.iter().all(|o| matches!(o, Op::ParExtend(..) | Op::ParCollect(..) | Op::ParHelp(_)))) as u64);
        }
        _ => {}
    }
    out
}

pub fn runs_for(prop: &str, tier: &str) -> u64 {
    let quick = match prop {
        "C02" => 150_000,
        "C15" => 150_000,
        "C12" => 3_000,
        "C18" => 20_000,
        "C19" => 200_000,
        _ => 400_000,
    };
    match tier {
        "thorough" => quick * 25,
        _ => quick,
    }
}

pub fn level_of(prop: &str) -> &'static str {
    match prop {
        "C09" | "C12" | "C18" => "fault_enumeration",
        _ => "exploration",
    }
}

pub fn ev_names() -> Vec<&'static str> {
    vec![
        "resize_started", "bin_migrated", "table_published", "helper_joined", "helper_left", "table_init", "cas_insert_lost", "head_changed_after_lock",
        "treeify_raced", "treeified", "untreeified_on_remove", "tree_split", "reader_list_fallback", "reader_tree_path", "writer_set_waiter", "writer_parks",
        "reader_unparks", "iter_push", "iter_pop", "retain_compare_failed", "retire", "lock_acquired", "lock_released", "init_table_lost", "forwarded_find",
        "presize_resize", "ev26", "ev27", "ev28", "ev29", "ev30", "ev31",
    ]
}

pub fn probe_relevant(_prop: &str, i: usize) -> bool {
    i < 26
}

pub fn rule_text(prop: &str) -> String {
    let common = "one evaluation = one simulated run: a program (configuration + per-thread operation lists) and a schedule/fault plan, all derived from (VERIF_SEED, run index); non-trivial = at least one context switch was forced inside an operation (between two seams of flurry); distinct = distinct fingerprint of the (clock, chosen thread) sequence of all context switches, counted as a set across all workers";
    match prop {
        "C02" => "one evaluation = one generated single-client program (1-90 operations from the whole public surface of HashMap/HashSet over 1-40 keys, a hash function, an initial capacity, a collector batch size, a facade choice per operation) executed step by step against BTreeMap/BTreeSet with full-content comparison after every step; there is no schedule in this property; non-trivial = at least 3 operations; distinct = distinct program text".to_string(),
        "C12" => format!("{}; enumeration: for every generated (state, writer operations, reader operations) scenario the writer is first run alone to count its N decision points, then one run per i in 1..=N stalls it for ever at its i-th point and runs the reader alone", common),
        "C18" => format!("{}; enumeration: for every generated scenario a dry run counts the c callback invocations, then one run per i in 1..=c makes the i-th invocation panic", common),
        _ => common.to_string(),
    }
}

pub fn assumptions(_prop: &str) -> Vec<String> {
    vec![
        "sampling, not proof: a clean batch is evidence over the explored seeds only".into(),
        "yield points are flurry's seams (pointer cells, control words, bin locks, park/unpark, spin sites); seize and the inside of parking_lot run as atomic steps".into(),
        "executions are sequentially consistent (weak-memory effects are the subject of C15 only)".into(),
        "the harness's reference model (per-key Option<value>) and checkers are trusted; they are validated by the single-client C02 runs and by seeded mutations (SENSITIVITY.md)".into(),
    ]
}

pub fn special_check(prop: &str, tier: &str) -> Option<i32> {
    match prop {
        "C09" => Some(crate::c09::check(tier)),
        _ => None,
    }
}

pub fn extra_stats(_prop: &str, _p: &Program, _r: &RunResult, _agg: &mut Agg) {}

#[allow(dead_code)]
fn _unused(_: HashKind) {}

/// Rare conditions a check of this property is supposed to reach; reported in the evidence as
/// (name, hits, reached?) so that a probe stuck at zero is visible.
pub fn reach_goals(prop: &str, agg: &Agg) -> serde_json::Value {
    use flurry::verif::Ev;
    let ev = |e: Ev| agg.ev[e as usize];
    let ex = |k: &str| agg.extra.get(k).copied().unwrap_or(0);
    let mut goals: Vec<(&str, u64)> = vec![("preemption inside an operation", agg.nontrivial)];
    match prop {
        "C01" | "C05" | "C11" => {
            goals.push(("crowd runs with 32 or more readers inside one tree bin", ex("crowd_runs_with_32_or_more_readers_inside")));
            goals.push(("resize with a helper joining", ev(Ev::HelperJoined)));
            goals.push(("insert lost the empty-bin CAS", ev(Ev::CasInsertLost)));
            goals.push(("bin head changed while waiting for the lock", ev(Ev::HeadChanged)));
            goals.push(("lookup forwarded to the next table", ev(Ev::ForwardedFind)));
            goals.push(("tree reader on the list fallback", ev(Ev::ReaderListFallback)));
            goals.push(("tree writer parked waiting for readers", ev(Ev::WriterParks)));
            goals.push(("treeify raced (bin already moved / treeified)", ev(Ev::TreeifyRaced)));
            goals.push(("tree bin untreeified by a removal", ev(Ev::UntreeifiedOnRemove)));
            goals.push(("table initialisation race lost", ev(Ev::InitTableLost)));
        }
        "C03" | "C04" => {
            goals.push(("references re-read under a live guard", agg.refs_checked));
            goals.push(("objects retired", ev(Ev::Retire)));
            goals.push(("tree bin split by a resize", ev(Ev::TreeSplit)));
            goals.push(("tree bin untreeified by a removal", ev(Ev::UntreeifiedOnRemove)));
            goals.push(("insert lost the empty-bin CAS", ev(Ev::CasInsertLost)));
            goals.push(("runs under reclamation pressure", ex("runs_with_reclamation_pressure_batch_1_to_4")));
        }
        "C06" => {
            goals.push(("tree bins validated at quiescence", ex("tree_bins_validated")));
            goals.push(("tree bins validated mid-run", ex("midrun_tree_validations")));
            goals.push(("tree bin split by a resize", ev(Ev::TreeSplit)));
            goals.push(("lookups cost-checked", ex("tree_lookups_cost_checked")));
        }
        "C07" => {
            goals.push(("iterations overlapped by a resize", ex("iterations_overlapped_by_resize")));
            goals.push(("iterator descended into a forwarded table", ev(Ev::IterPush)));
            goals.push(("stable keys checked for exactly-once", ex("stable_keys_checked")));
            goals.push(("tree bin emptied by a removal", ex("tree_bins_emptied_by_removal")));
        }
        "C08" => {
            goals.push(("pure counter keys checked in closed form", ex("pure_counter_keys_checked")));
            goals.push(("bin head changed while waiting for the lock", ev(Ev::HeadChanged)));
        }
        "C10" => {
            goals.push(("resize generations", ex("resize_generations")));
            goals.push(("generations with 2 or more helpers", ex("generations_with_2_or_more_helpers")));
            goals.push(("resize started by reserve/presize", ev(Ev::PresizeResize)));
            goals.push(("tree bin split by a resize", ev(Ev::TreeSplit)));
            goals.push(("post-run growth probes", ex("post_run_growth_probes")));
            goals.push(("helper crowd runs (9-38 threads meeting one resize)", ex("helper_crowd_runs")));
        }
        "C12" => {
            goals.push(("stall faults fired", agg.faults[2]));
            goals.push(("tree reader on the list fallback", ev(Ev::ReaderListFallback)));
            goals.push(("lookup forwarded to the next table", ev(Ev::ForwardedFind)));
            goals.push(("writer parked behind a stalled reader", ev(Ev::WriterParks)));
        }
        "C13" => {
            goals.push(("retain skipped a replaced value (list bin)", ex("retain_skipped_replaced_value_in_list_bin")));
            goals.push(("retain skipped a replaced value (tree bin)", ex("retain_skipped_replaced_value_in_tree_bin")));
        }
        "C15" => {
            goals.push(("cross-thread payload reads checked", ex("cross_thread_payload_reads_checked")));
            goals.push(("reads of clones made by a third thread", ex("cross_thread_reads_of_clones_made_by_a_third_thread")));
            goals.push(("lock edges taken", ex("lock_edges_taken")));
        }
        "C18" => {
            goals.push(("callback panics injected", agg.faults[5]));
        }
        "C19" => {
            goals.push(("parts run by a helper thread", ex("parts_run_by_a_helper_thread")));
            goals.push(("parts run by the publishing thread", ex("parts_run_by_the_publishing_thread")));
            goals.push(("publisher waited for a part in flight", ex("publisher_waited_for_a_part_in_flight")));
            goals.push(("parallel collects", ex("parallel_collects")));
            goals.push(("resize with a helper joining", ev(Ev::HelperJoined)));
            goals.push(("table initialisation race lost", ev(Ev::InitTableLost)));
            goals.push(("insert lost the empty-bin CAS", ev(Ev::CasInsertLost)));
            goals.push(("serde documents with a repeated key", ex("serde_documents_with_repeated_keys")));
            goals.push(("serde stream faults fired", ex("serde_stream_faults_fired")));
        }
        _ => {}
    }
    serde_json::Value::Array(goals.into_iter().map(|(n, h)| serde_json::json!({"condition": n, "hits": h, "reached": h > 0})).collect())
}
