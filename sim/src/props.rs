//! Per-property plans: what is generated, which faults are injected, which oracles judge.

use crate::exec::{ExecOpts, RunResult};
use crate::gen::{self, GenCfg, Mix, Shape};
use crate::oracle::{self, LinStats, Violation};
use crate::program::Program;
use crate::rng::Rng;
use crate::sched::RunSetup;

pub const SIM_PROPS: [&str; 13] = ["C01", "C03", "C04", "C05", "C06", "C07", "C08", "C10", "C11", "C13", "C15", "C12", "C18"];

pub struct Plan {
    pub program: Program,
    pub setup: RunSetup,
    pub opts: ExecOpts,
}

pub fn gencfg(prop: &str, tier: &str) -> GenCfg {
    let mut g = GenCfg::base();
    let thorough = tier == "thorough";
    match prop {
        "C01" => {
            g.mix = Mix::per_key();
            if thorough {
                g.threads = (2, 5);
                g.ops = (2, 9);
                g.hot_keys = (1, 6);
            }
        }
        _ => {}
    }
    let _ = Shape::Plain;
    g
}

/// Derives everything about run `index` of a check from (seed, index).
pub fn plan(prop: &str, tier: &str, run_seed: u64) -> Plan {
    let mut rng = Rng::new(run_seed);
    let gc = gencfg(prop, tier);
    let mut prng = rng.fork(1);
    let program = gen::gen_program(&mut prng, &gc);
    let mut srng = rng.fork(2);
    let stall_pct = match prop {
        "C01" => 15,
        _ => 10,
    };
    let setup = gen::gen_setup(&mut srng, run_seed, &program, stall_pct, false);
    Plan {
        program,
        setup,
        opts: ExecOpts::default(),
    }
}

#[derive(Default)]
pub struct JudgeStats {
    pub lin_keys: usize,
    pub lin_ops: usize,
    pub lin_states: usize,
    pub lin_max_ops: usize,
    pub lin_skipped: usize,
}

/// The oracles of one property applied to one run.
pub fn judge(prop: &str, p: &Program, r: &RunResult, opts: &ExecOpts, js: &mut JudgeStats) -> Vec<Violation> {
    let mut out = Vec::new();
    out.extend(oracle::verdicts(r));
    if r.outcome.wedged {
        return out;
    }
    out.extend(oracle::basic(r, opts.panic_at.is_some()));
    let mut ls = LinStats {
        keys_checked: 0,
        ops_checked: 0,
        states_explored: 0,
        max_ops_per_key: 0,
        skipped_keys: 0,
    };
    match prop {
        "C01" => {
            out.extend(oracle::linearizability(p, r, &mut ls));
        }
        _ => {}
    }
    js.lin_keys += ls.keys_checked;
    js.lin_ops += ls.ops_checked;
    js.lin_states += ls.states_explored;
    js.lin_max_ops = js.lin_max_ops.max(ls.max_ops_per_key);
    js.lin_skipped += ls.skipped_keys;
    out
}

pub fn implemented(prop: &str) -> bool {
    matches!(prop, "C01")
}

pub fn runs_for(prop: &str, tier: &str) -> u64 {
    match (prop, tier) {
        (_, "thorough") => 1_200_000,
        _ => 120_000,
    }
}

pub fn level_of(prop: &str) -> &'static str {
    match prop {
        "C09" | "C12" | "C18" => "fault_enumeration",
        _ => "exploration",
    }
}

pub fn ev_names() -> Vec<&'static str> {
    vec![
        "resize_started", "bin_migrated", "table_published", "helper_joined", "helper_left", "table_init", "cas_insert_lost", "head_changed_after_lock",
        "treeify_raced", "treeified", "untreeified_on_remove", "tree_split", "reader_list_fallback", "reader_tree_path", "writer_set_waiter", "writer_parks",
        "reader_unparks", "iter_push", "iter_pop", "retain_compare_failed", "retire", "lock_acquired", "lock_released", "init_table_lost", "forwarded_find",
        "presize_resize", "ev26", "ev27", "ev28", "ev29", "ev30", "ev31",
    ]
}

pub fn probe_relevant(_prop: &str, i: usize) -> bool {
    i < 26
}

pub fn rule_text(prop: &str) -> String {
    let common = "one evaluation = one simulated run: a program (config + per-thread operation lists) and a schedule/fault plan, all derived from (VERIF_SEED, run index); non-trivial = at least one context switch was forced inside an operation (between two seams of flurry); distinct = distinct fingerprint of the (clock, chosen thread) sequence of all context switches, counted as a set across all workers";
    match prop {
        _ => common.to_string(),
    }
}

pub fn assumptions(_prop: &str) -> Vec<String> {
    vec![
        "sampling, not proof: a clean batch is evidence over the explored seeds only".into(),
        "yield points are flurry's seams (pointer cells, control words, bin locks, park/unpark, spin sites); seize and the inside of parking_lot run as atomic steps".into(),
        "executions are sequentially consistent (weak-memory effects are the subject of C15 only)".into(),
        "the harness's reference model (per-key Option<value>) and checkers are trusted; they are validated by the single-client C02 runs and by seeded mutations (SENSITIVITY.md)".into(),
    ]
}

pub fn special_check(_prop: &str, _tier: &str) -> Option<i32> {
    None
}

pub fn extra_stats(_prop: &str, _p: &Program, _r: &RunResult, _agg: &mut crate::orch::Agg) {}
