//! C14, single-client half: the capacity contract against a small capacity reference model.
//! (No schedule in this half - said plainly in DESIGN.md; the schedule-quantified half, "removal
//! never grows the table under any interleaving", runs on the simulator workers.)

use crate::rng::Rng;
use crate::seq::PK;
use crate::types::{HashKind, SimBuild};

type PMap = flurry::HashMap<PK, u64, SimBuild>;

pub struct SeqStats {
    pub capacities_checked: u64,
    pub reserve_cases: u64,
    pub sequences: u64,
    pub steps: u64,
    pub growths_seen: u64,
    pub max_table: u64,
    pub samples: Vec<String>,
}

const MAXCAP: usize = 1 << 30;

/// Table length `with_capacity(c)` promises room for: the smallest power of two >= 1.5c + 1.
fn size_for(c: usize) -> usize {
    if c == 0 {
        0
    } else if c >= MAXCAP / 2 {
        MAXCAP
    } else {
        (c + (c >> 1) + 1).next_power_of_two().min(MAXCAP)
    }
}

fn k(i: u32) -> PK {
    PK { k: i, tag: 0 }
}

pub fn run(tier: &str, seed: u64) -> (Vec<String>, SeqStats) {
    let mut st = SeqStats { capacities_checked: 0, reserve_cases: 0, sequences: 0, steps: 0, growths_seen: 0, max_table: 0, samples: vec![] };
    let mut viol: Vec<String> = Vec::new();
    let h = SimBuild(HashKind::Identity);
    let thorough = tier == "thorough";

    // (a) with_capacity(c) holds c collision-free entries without growing; capacity 0 allocates nothing
    let dense: u32 = if thorough { 6000 } else { 2000 };
    let mut caps: Vec<u32> = (0..=dense).collect();
    caps.extend([4095u32, 4096, 4097, 10_000, 43_690, 43_691, 65_536, 100_000, 349_525, 349_526]);
    if thorough {
        caps.extend([1 << 20, (1 << 20) + 1, 699_050, 699_051]);
    }
    for &c in &caps {
        let m = PMap::with_capacity_and_hasher(c as usize, h);
        let len0 = m.verif_table_len();
        st.capacities_checked += 1;
        st.max_table = st.max_table.max(len0 as u64);
        if c == 0 {
            if len0 != 0 {
                viol.push(format!("with_capacity(0) allocated a table of {} bins", len0));
            }
            continue;
        }
        if !len0.is_power_of_two() || len0 > MAXCAP {
            viol.push(format!("with_capacity({}) made a table of {} bins (not a power of two <= 2^30)", c, len0));
            continue;
        }
        let g = m.guard();
        for i in 0..c {
            m.insert(k(i), i as u64, &g);
            let l = m.verif_table_len();
            if l != len0 {
                viol.push(format!("with_capacity({}): the table grew from {} to {} bins at the {}-th of {} collision-free inserts", c, len0, l, i + 1, c));
                break;
            }
        }
        if viol.len() > 5 {
            break;
        }
    }

    // (b) reserve(a) makes room for a further a entries
    let mut rng = Rng::new(seed ^ 0xC14);
    let rcases = if thorough { 4000 } else { 600 };
    for _ in 0..rcases {
        let cap = *rng.pick(&[0u32, 0, 1, 5, 16, 40]);
        let n = rng.below(120) as u32;
        let a = rng.below(400) as u32;
        let m = PMap::with_capacity_and_hasher(cap as usize, h);
        let g = m.guard();
        for i in 0..n {
            m.insert(k(i), 0, &g);
        }
        if rng.chance(1, 2) {
            m.reserve(a as usize, &g);
        } else {
            m.pin().reserve(a as usize);
        }
        let len0 = m.verif_table_len();
        st.reserve_cases += 1;
        for i in 0..a {
            m.insert(k(n + i), 0, &g);
            let l = m.verif_table_len();
            if l != len0 {
                viol.push(format!("after {} entries, reserve({}) left a table of {} bins which grew to {} at the {}-th further collision-free insert", n, a, len0, l, i + 1));
                break;
            }
        }
        if viol.len() > 5 {
            break;
        }
    }

    // (b2) the overfull-bin rule: colliding keys make a table grow only while it is shorter than
    // 64 bins (and only once a bin holds 8 entries); from 64 bins on a crowded bin becomes a tree
    // and the length stays (unless the count reaches three quarters)
    for &cap in &[1u32, 5, 10, 11, 21, 22, 32, 42, 43, 64, 85, 100, 171, 300] {
        for fillers in [0u32, 3, 9] {
            let m = PMap::with_capacity_and_hasher(cap as usize, h);
            let g = m.guard();
            // fillers in bins 2, 3, ... (collision-free for every length used here)
            for f in 0..fillers {
                m.insert(k(2 + f), 0, &g);
            }
            let mut in_bin = 0usize;
            for i in 0..14u32 {
                let before = m.verif_table_len();
                // bin 1 of every table of at most 4096 bins
                m.insert(k(1 + i * 4096), 0, &g);
                in_bin += 1;
                let after = m.verif_table_len();
                st.steps += 1;
                st.max_table = st.max_table.max(after as u64);
                if before == 0 || after == before {
                    continue;
                }
                st.growths_seen += 1;
                let count = (fillers + i + 1) as usize;
                let by_count = count >= before - (before >> 2);
                // after a growth the colliding keys stay together (same low 12 bits)
                let by_overfull_bin = before < 64 && in_bin >= 8;
                if !by_count && !by_overfull_bin {
                    viol.push(format!(
                        "with_capacity({}) + {} fillers: the table grew from {} to {} bins at the {}-th key of one bin, with {} entries in all (neither three quarters of {} nor an overfull bin in a table shorter than 64)",
                        cap, fillers, before, after, in_bin, count, before
                    ));
                    break;
                }
            }
            st.sequences += 1;
        }
        if viol.len() > 5 {
            break;
        }
    }

    // (c) seeded sequences against the capacity model (collision-free keys)
    let nseq = if thorough { 30_000 } else { 4_000 };
    for s in 0..nseq {
        let mut rng = Rng::new(seed ^ (s as u64).wrapping_mul(0x9E37_79B9) ^ 0xC14C);
        let cap = *rng.pick(&[0u32, 0, 0, 1, 2, 3, 10, 11, 16, 21, 22, 42, 43, 100]);
        let m = PMap::with_capacity_and_hasher(cap as usize, h);
        let g = m.guard();
        let mut present: std::collections::BTreeSet<u32> = Default::default();
        let mut model_len = size_for(cap as usize);
        let nops = rng.range(5, 120);
        let universe = rng.range(4, 90) as u32;
        let mut log: Vec<String> = Vec::new();
        st.sequences += 1;
        for _ in 0..nops {
            st.steps += 1;
            let key = rng.below(universe as u64) as u32;
            let before = m.verif_table_len();
            let kind = rng.below(12);
            // model of the growth an operation is allowed (and, for collision-free keys, obliged) to cause
            let grow_on_new_key = |present: &mut std::collections::BTreeSet<u32>, model_len: &mut usize| {
                if present.insert(key) {
                    if *model_len == 0 {
                        *model_len = 16;
                    }
                    while present.len() >= *model_len - (*model_len >> 2) && *model_len < MAXCAP {
                        *model_len <<= 1;
                    }
                }
            };
            let what;
            let mut may_presize = false;
            match kind {
                0..=4 => {
                    what = format!("insert({})", key);
                    m.insert(k(key), 1, &g);
                    grow_on_new_key(&mut present, &mut model_len);
                }
                5 => {
                    what = format!("try_insert({})", key);
                    let _ = m.try_insert(k(key), 1, &g);
                    grow_on_new_key(&mut present, &mut model_len);
                }
                6 | 7 => {
                    what = format!("remove({})", key);
                    m.remove(&k(key), &g);
                    present.remove(&key);
                }
                8 => {
                    what = format!("compute_if_present({}) -> None", key);
                    m.compute_if_present(&k(key), |_, _| None, &g);
                    present.remove(&key);
                }
                9 => {
                    let md = rng.range(2, 5) as u32;
                    what = format!("retain(k % {} != 0)", md);
                    if rng.chance(1, 2) {
                        m.retain(|kk, _| kk.k % md != 0, &g);
                    } else {
                        m.retain_force(|kk, _| kk.k % md != 0, &g);
                    }
                    present.retain(|x| x % md != 0);
                }
                10 => {
                    if rng.chance(1, 3) {
                        what = "clear()".to_string();
                        m.clear(&g);
                        present.clear();
                    } else {
                        what = format!("get({})", key);
                        let _ = m.get(&k(key), &g);
                    }
                }
                _ => {
                    let a = rng.below(60) as usize;
                    what = format!("reserve({})", a);
                    m.reserve(a, &g);
                    may_presize = true;
                    // try_presize: grow (by doubling) until 3/4 of the length reaches the request
                    let want = size_for(present.len() + a);
                    if model_len == 0 {
                        model_len = want.max(1);
                        if present.len() + a == 0 {
                            model_len = 1;
                        }
                    }
                    while (model_len - (model_len >> 2)) < want && model_len < MAXCAP {
                        model_len <<= 1;
                    }
                }
            }
            let after = m.verif_table_len();
            st.max_table = st.max_table.max(after as u64);
            log.push(format!("{} [{} -> {} bins, {} entries]", what, before, after, present.len()));
            if after != before {
                st.growths_seen += 1;
            }
            let removal = matches!(kind, 6..=10);
            let err = if after < before {
                Some(format!("the table shrank from {} to {} bins", before, after))
            } else if after != 0 && (!after.is_power_of_two() || after > MAXCAP) {
                Some(format!("table length {} is not a power of two <= 2^30", after))
            } else if removal && after != before {
                Some(format!("the table grew from {} to {} bins during an operation that only removes or reads", before, after))
            } else if !may_presize && after != before && before > 0 && present.len() < before - (before >> 2) {
                // growth is only allowed when the insert brought the count to 3/4 of the length
                // (keys are collision-free here, so the overfull-bin rule cannot apply); whether
                // it MUST grow at that point, and by how much, is C10's business
                Some(format!("the table grew from {} to {} bins although the insert only brought the count to {} (< 3/4 of {})", before, after, present.len(), before))
            } else if !may_presize && after != before && before > 0 && !(after % before == 0 && (after / before).is_power_of_two()) {
                Some(format!("the table went from {} to {} bins (not a doubling chain)", before, after))
            } else {
                // how much a reservation provides is judged behaviourally in part (b): the
                // reserved entries must fit without growth
                let _ = may_presize;
                None
            };
            // the model follows the implementation wherever the property leaves freedom
            model_len = after;
            if let Some(e) = err {
                let tail: Vec<String> = log.iter().rev().take(12).rev().cloned().collect();
                viol.push(format!("sequence {} (with_capacity({})): {}\n  last steps: {}", s, cap, e, tail.join("; ")));
                break;
            }
        }
        if st.samples.len() < 2 && log.len() > 8 {
            st.samples.push(format!("with_capacity({}): {}", cap, log.iter().take(14).cloned().collect::<Vec<_>>().join("; ")));
        }
        if viol.len() > 5 {
            break;
        }
    }
    (viol, st)
}
