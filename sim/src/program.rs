//! Programs: configuration + per-thread operation lists. A program together with a schedule
//! trace is everything needed to reproduce a run; both serialise to JSON (the replay file).

use crate::sched::TE;
use crate::types::HashKind;
use serde_json::{json, Value};

#[derive(Clone, Copy, Debug, PartialEq, Eq)]
pub enum CFn {
    /// closure returns Some(new value with the given id)
    Replace,
    /// closure returns Some(value with n = old.n + 1)
    Inc,
    /// closure returns None (removal)
    Remove,
}

#[derive(Clone, Copy, Debug, PartialEq, Eq)]
pub enum Pred {
    /// keep entries whose key satisfies k % m != r
    KeyMod(u32, u32),
    /// keep entries whose value id is even
    ValEven,
    /// keep nothing
    DropAll,
    /// keep everything
    KeepAll,
    /// keep everything except these two keys
    DropKeys(u32, u32),
    /// keep everything except key k - and when shown key k the predicate itself first
    /// re-inserts k (with this value id) into the same collection: the entry is replaced between
    /// the inspection and the removal, deterministically
    ReinsertReject(u32, u32),
}

impl Pred {
    pub fn keep(self, k: u32, vid: u32) -> bool {
        match self {
            Pred::KeyMod(m, r) => k % m.max(1) != r,
            Pred::ValEven => vid % 2 == 0,
            Pred::DropAll => false,
            Pred::KeepAll => true,
            Pred::DropKeys(a, b) => k != a && k != b,
            Pred::ReinsertReject(a, _) => k != a,
        }
    }
}

#[derive(Clone, Copy, Debug, PartialEq, Eq)]
pub enum IterKind {
    Iter,
    Keys,
    Values,
    /// `Clone` of the shared collection while others write to it: the clone is one more
    /// iterator-based view (read back entry by entry, then dropped inside the operation)
    Clone,
}

#[derive(Clone, Debug, PartialEq, Eq)]
pub enum Op {
    Get(u32),
    Contains(u32),
    GetKV(u32),
    Insert(u32, u32),
    TryInsert(u32, u32),
    Remove(u32),
    RemoveEntry(u32),
    Compute(u32, CFn, u32),
    Retain(Pred),
    RetainForce(Pred),
    Clear,
    Reserve(u32),
    Len,
    /// `map == map` (reads only: iterates one side, looks every entry up in the other)
    EqSelf,
    /// relation between the shared collection and its never-modified twin (same hasher, the
    /// pre-populated contents): 0-4 `==` in the owned/ref combinations, 5 is_subset, 6 is_superset,
    /// 7 is_disjoint (sets; maps fold 5-7 onto 0-2); even kinds through guards, odd through refs
    Rel(u8),
    /// whole iteration as one operation
    IterAll(IterKind),
    /// step-wise iteration: open, advance by up to n items, close
    IterOpen(IterKind),
    IterNext(u32),
    IterClose,
    /// extend with fresh keys/values (k, vid)
    Extend(Vec<(u32, u32)>),
    /// build a separate map with `collect()` (FromIterator) from these pairs, with or without
    /// a size hint, read it back and drop it
    Collect(Vec<(u32, u32)>, bool),
    /// rayon `ParallelExtend` on the shared collection: the items are cut into this many parts
    /// that the simulated pool's threads run (`via_ref`: through the pinned reference type)
    ParExtend(Vec<(u32, u32)>, u8, bool),
    /// rayon `FromParallelIterator`: build a separate map (or set) from these items, cut into
    /// this many parts, read it back and drop it
    ParCollect(Vec<(u32, u32)>, u8),
    /// act as a worker of the simulated pool: take up to n published parts, if any, and run them
    ParHelp(u8),
    /// guard management of the executing thread
    Pin,
    Unpin,
    Refresh,
    Flush,
    /// re-read every reference collected under the current guard and compare with what was seen
    Recheck,
}

#[derive(Clone, Copy, Debug, PartialEq, Eq)]
pub enum Facade {
    Guarded,
    Pinned,
}

#[derive(Clone, Debug, PartialEq)]
pub struct Config {
    pub hash: HashKind,
    pub capacity: u32,
    /// collector batch size (reclamation pressure: 1..4; 120 is seize's default)
    pub batch: u32,
    pub set: bool,
    pub ncpu: Option<u32>,
    pub min_stride: Option<u32>,
    /// keys inserted by the controller before the concurrent part (value id = 1_000_000 + k)
    pub prepop: Vec<u32>,
    /// keys removed again by the controller after pre-population (shapes: untreeify boundary)
    pub preremove: Vec<u32>,
    pub facade: Vec<Facade>,
}

#[derive(Clone, Debug, PartialEq)]
pub struct Program {
    pub cfg: Config,
    pub threads: Vec<Vec<Op>>,
}

pub const PREPOP_VID: u32 = 1_000_000;

fn cfn_s(c: CFn) -> &'static str {
    match c {
        CFn::Replace => "replace",
        CFn::Inc => "inc",
        CFn::Remove => "remove",
    }
}
fn cfn_p(s: &str) -> Option<CFn> {
    Some(match s {
        "replace" => CFn::Replace,
        "inc" => CFn::Inc,
        "remove" => CFn::Remove,
        _ => return None,
    })
}
fn pred_j(p: Pred) -> Value {
    match p {
        Pred::KeyMod(m, r) => json!(["keymod", m, r]),
        Pred::ValEven => json!(["valeven"]),
        Pred::DropAll => json!(["dropall"]),
        Pred::KeepAll => json!(["keepall"]),
        Pred::DropKeys(a, b) => json!(["dropkeys", a, b]),
        Pred::ReinsertReject(a, b) => json!(["reinsert_reject", a, b]),
    }
}
fn pred_p(v: &Value) -> Option<Pred> {
    let a = v.as_array()?;
    Some(match a.first()?.as_str()? {
        "keymod" => Pred::KeyMod(a.get(1)?.as_u64()? as u32, a.get(2)?.as_u64()? as u32),
        "valeven" => Pred::ValEven,
        "dropall" => Pred::DropAll,
        "keepall" => Pred::KeepAll,
        "dropkeys" => Pred::DropKeys(a.get(1)?.as_u64()? as u32, a.get(2)?.as_u64()? as u32),
        "reinsert_reject" => Pred::ReinsertReject(a.get(1)?.as_u64()? as u32, a.get(2)?.as_u64()? as u32),
        _ => return None,
    })
}
fn ik_s(k: IterKind) -> &'static str {
    match k {
        IterKind::Iter => "iter",
        IterKind::Keys => "keys",
        IterKind::Values => "values",
        IterKind::Clone => "clone",
    }
}
fn ik_p(s: &str) -> Option<IterKind> {
    Some(match s {
        "iter" => IterKind::Iter,
        "keys" => IterKind::Keys,
        "values" => IterKind::Values,
        "clone" => IterKind::Clone,
        _ => return None,
    })
}

impl Op {
    pub fn to_json(&self) -> Value {
        match self {
            Op::Get(k) => json!(["get", k]),
            Op::Contains(k) => json!(["contains", k]),
            Op::GetKV(k) => json!(["get_kv", k]),
            Op::Insert(k, v) => json!(["insert", k, v]),
            Op::TryInsert(k, v) => json!(["try_insert", k, v]),
            Op::Remove(k) => json!(["remove", k]),
            Op::RemoveEntry(k) => json!(["remove_entry", k]),
            Op::Compute(k, c, v) => json!(["compute", k, cfn_s(*c), v]),
            Op::Retain(p) => json!(["retain", pred_j(*p)]),
            Op::RetainForce(p) => json!(["retain_force", pred_j(*p)]),
            Op::Clear => json!(["clear"]),
            Op::Reserve(n) => json!(["reserve", n]),
            Op::Len => json!(["len"]),
            Op::EqSelf => json!(["eq_self"]),
            Op::Rel(k) => json!(["rel", k]),
            Op::IterAll(k) => json!(["iter_all", ik_s(*k)]),
            Op::IterOpen(k) => json!(["iter_open", ik_s(*k)]),
            Op::IterNext(n) => json!(["iter_next", n]),
            Op::IterClose => json!(["iter_close"]),
            Op::Extend(kv) => json!(["extend", kv.iter().map(|(k, v)| json!([k, v])).collect::<Vec<_>>()]),
            Op::Collect(kv, hint) => json!(["collect", kv.iter().map(|(k, v)| json!([k, v])).collect::<Vec<_>>(), hint]),
            Op::ParExtend(kv, parts, via_ref) => json!(["par_extend", kv.iter().map(|(k, v)| json!([k, v])).collect::<Vec<_>>(), parts, via_ref]),
            Op::ParCollect(kv, parts) => json!(["par_collect", kv.iter().map(|(k, v)| json!([k, v])).collect::<Vec<_>>(), parts]),
            Op::ParHelp(n) => json!(["par_help", n]),
            Op::Pin => json!(["pin"]),
            Op::Unpin => json!(["unpin"]),
            Op::Refresh => json!(["refresh"]),
            Op::Flush => json!(["flush"]),
            Op::Recheck => json!(["recheck"]),
        }
    }

    pub fn from_json(v: &Value) -> Option<Op> {
        let a = v.as_array()?;
        let name = a.first()?.as_str()?;
        let u = |i: usize| -> Option<u32> { Some(a.get(i)?.as_u64()? as u32) };
        let pairs = |x: &Value| -> Option<Vec<(u32, u32)>> {
            x.as_array()?
                .iter()
                .map(|p| {
                    let p = p.as_array()?;
                    Some((p.first()?.as_u64()? as u32, p.get(1)?.as_u64()? as u32))
                })
                .collect::<Option<Vec<_>>>()
        };
        Some(match name {
            "get" => Op::Get(u(1)?),
            "contains" => Op::Contains(u(1)?),
            "get_kv" => Op::GetKV(u(1)?),
            "insert" => Op::Insert(u(1)?, u(2)?),
            "try_insert" => Op::TryInsert(u(1)?, u(2)?),
            "remove" => Op::Remove(u(1)?),
            "remove_entry" => Op::RemoveEntry(u(1)?),
            "compute" => Op::Compute(u(1)?, cfn_p(a.get(2)?.as_str()?)?, u(3)?),
            "retain" => Op::Retain(pred_p(a.get(1)?)?),
            "retain_force" => Op::RetainForce(pred_p(a.get(1)?)?),
            "clear" => Op::Clear,
            "reserve" => Op::Reserve(u(1)?),
            "len" => Op::Len,
            "eq_self" => Op::EqSelf,
            "rel" => Op::Rel(u(1)? as u8),
            "iter_all" => Op::IterAll(ik_p(a.get(1)?.as_str()?)?),
            "iter_open" => Op::IterOpen(ik_p(a.get(1)?.as_str()?)?),
            "iter_next" => Op::IterNext(u(1)?),
            "iter_close" => Op::IterClose,
            "extend" => Op::Extend(
                a.get(1)?
                    .as_array()?
                    .iter()
                    .map(|p| {
                        let p = p.as_array()?;
                        Some((p.first()?.as_u64()? as u32, p.get(1)?.as_u64()? as u32))
                    })
                    .collect::<Option<Vec<_>>>()?,
            ),
            "collect" => Op::Collect(
                a.get(1)?
                    .as_array()?
                    .iter()
                    .map(|p| {
                        let p = p.as_array()?;
                        Some((p.first()?.as_u64()? as u32, p.get(1)?.as_u64()? as u32))
                    })
                    .collect::<Option<Vec<_>>>()?,
                a.get(2)?.as_bool()?,
            ),
            "par_extend" => Op::ParExtend(pairs(a.get(1)?)?, u(2)? as u8, a.get(3)?.as_bool()?),
            "par_collect" => Op::ParCollect(pairs(a.get(1)?)?, u(2)? as u8),
            "par_help" => Op::ParHelp(u(1)? as u8),
            "pin" => Op::Pin,
            "unpin" => Op::Unpin,
            "refresh" => Op::Refresh,
            "flush" => Op::Flush,
            "recheck" => Op::Recheck,
            _ => return None,
        })
    }

    /// The key this operation addresses, if it is a per-key operation.
    pub fn key(&self) -> Option<u32> {
        match self {
            Op::Get(k)
            | Op::Contains(k)
            | Op::GetKV(k)
            | Op::Insert(k, _)
            | Op::TryInsert(k, _)
            | Op::Remove(k)
            | Op::RemoveEntry(k)
            | Op::Compute(k, _, _) => Some(*k),
            _ => None,
        }
    }

    pub fn is_guard_op(&self) -> bool {
        matches!(self, Op::Pin | Op::Unpin | Op::Refresh | Op::Flush | Op::Recheck)
    }
}

impl Program {
    pub fn to_json(&self) -> Value {
        json!({
            "hash": self.cfg.hash.name(),
            "capacity": self.cfg.capacity,
            "batch": self.cfg.batch,
            "set": self.cfg.set,
            "ncpu": self.cfg.ncpu,
            "min_stride": self.cfg.min_stride,
            "prepop": self.cfg.prepop,
            "preremove": self.cfg.preremove,
            "facade": self.cfg.facade.iter().map(|f| match f { Facade::Guarded => "guarded", Facade::Pinned => "pinned" }).collect::<Vec<_>>(),
            "threads": self.threads.iter().map(|t| t.iter().map(|o| o.to_json()).collect::<Vec<_>>()).collect::<Vec<_>>(),
        })
    }

    pub fn from_json(v: &Value) -> Option<Program> {
        let arr_u32 = |x: &Value| -> Option<Vec<u32>> {
            x.as_array()?.iter().map(|e| Some(e.as_u64()? as u32)).collect()
        };
        let cfg = Config {
            hash: HashKind::parse(v.get("hash")?.as_str()?)?,
            capacity: v.get("capacity")?.as_u64()? as u32,
            batch: v.get("batch")?.as_u64()? as u32,
            set: v.get("set")?.as_bool()?,
            ncpu: v.get("ncpu").and_then(|x| x.as_u64()).map(|x| x as u32),
            min_stride: v.get("min_stride").and_then(|x| x.as_u64()).map(|x| x as u32),
            prepop: arr_u32(v.get("prepop")?)?,
            preremove: arr_u32(v.get("preremove")?)?,
            facade: v
                .get("facade")?
                .as_array()?
                .iter()
                .map(|f| match f.as_str() {
                    Some("pinned") => Facade::Pinned,
                    _ => Facade::Guarded,
                })
                .collect(),
        };
        let threads = v
            .get("threads")?
            .as_array()?
            .iter()
            .map(|t| t.as_array()?.iter().map(Op::from_json).collect::<Option<Vec<_>>>())
            .collect::<Option<Vec<_>>>()?;
        Some(Program { cfg, threads })
    }

    pub fn op_count(&self) -> usize {
        self.threads.iter().map(|t| t.len()).sum()
    }
}

pub fn trace_to_json(t: &[TE]) -> Value {
    Value::Array(t.iter().map(|e| json!([e.clock, e.kind, e.thread])).collect())
}

pub fn trace_from_json(v: &Value) -> Option<Vec<TE>> {
    v.as_array()?
        .iter()
        .map(|e| {
            let a = e.as_array()?;
            Some(TE {
                clock: a.first()?.as_u64()?,
                kind: a.get(1)?.as_u64()? as u8,
                thread: a.get(2)?.as_u64()? as u8,
            })
        })
        .collect()
}
