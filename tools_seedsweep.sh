#!/bin/sh
# Runs every quick check with several seeds on the unchanged tree; any alarm is a bug in the check
# (or a genuine defect). Usage: tools_seedsweep.sh [seed ...]
cd "$(dirname "$0")" || exit 2
SEEDS=${@:-"1 2 3 7 12345"}
IDS=$(python3 -c "import json; print(' '.join(c['property_id'] for c in json.load(open('MANIFEST.json'))['checks']))")
bad=0
for s in $SEEDS; do
  for id in $IDS; do
    out=$(VERIF_SEED=$s ./check $id quick 2>&1); rc=$?
    if [ $rc -ne 0 ]; then bad=$((bad+1)); echo "ALARM seed=$s $id exit=$rc"; echo "$out" | tail -12; fi
  done
  echo "seed $s done"
done
echo "sweep finished, $bad alarms"
