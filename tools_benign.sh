#!/bin/bash
# tools_benign.sh <dir-with-patch.diff> [check ids...]
# Applies a behaviour-preserving change to /repo, runs the quick checks, restores /repo.
# Any VIOLATION is a false alarm of the machinery (or the change is not as benign as claimed).
D=$1; shift
IDS=${@:-"C01 C02 C03 C04 C05 C06 C07 C08 C09 C10 C11 C12 C13 C14 C15 C18 C19"}
cd /repo && git apply --check $D/patch.diff || { echo "patch does not apply: $D"; exit 3; }
git apply $D/patch.diff
bad=0
for id in $IDS; do
  out=$(cd /verif && VERIF_NO_MIRI=1 env -u CARGO_TARGET_DIR ./check $id quick 2>&1); rc=$?
  if [ $rc -ne 0 ]; then bad=$((bad+1)); echo "ALARM $D $id exit=$rc"; echo "$out" | grep -E "candidate|^VIOLATION|harness|error" | head -5; echo "$out" | tail -12 | cut -c1-600; fi
done
git -C /repo checkout -- .
echo "benign $D: $bad alarms"
cd /verif/sim && env -u CARGO_TARGET_DIR cargo build --release --offline >/dev/null 2>&1
