//! Engine E2: scenarios for Miri (`cargo +nightly miri run -- <scenario> <seed>` with
//! `-Zmiri-many-seeds`). Miri is itself a deterministic simulator of the Rust abstract machine:
//! its scheduler and weak-memory store buffers are seeded, one seed is one repeatable execution,
//! and it reports use-after-free, data races (C++11 model) and leaks on the *unhooked* crate.
//!
//! Everything a scenario does is derived from argv (never from the environment).

use flurry::HashMap;
use std::hash::{BuildHasher, Hasher};
use std::sync::atomic::{AtomicUsize, Ordering};
use std::sync::Arc;

#[derive(Clone, Copy)]
struct H(u8);
thread_local! { static DEFAULT_KIND: std::cell::Cell<u8> = const { std::cell::Cell::new(0) }; }
impl Default for H {
    fn default() -> H {
        H(DEFAULT_KIND.with(|c| c.get()))
    }
}
struct HH(u8, u64);
impl BuildHasher for H {
    type Hasher = HH;
    fn build_hasher(&self) -> HH {
        HH(self.0, 0)
    }
}
impl Hasher for HH {
    fn finish(&self) -> u64 {
        match self.0 {
            0 => self.1,                        // identity
            1 => 7,                             // constant: everything collides
            3 => self.1 % 2,                    // two chains
            _ => self.1.wrapping_mul(0x9E37_79B9_7F4A_7C15) >> 7,
        }
    }
    fn write(&mut self, b: &[u8]) {
        for x in b {
            self.1 = self.1 * 31 + *x as u64;
        }
    }
    fn write_u32(&mut self, i: u32) {
        self.1 = i as u64;
    }
}

fn rng(s: &mut u64) -> u64 {
    *s = s.wrapping_add(0x9E37_79B9_7F4A_7C15);
    let mut z = *s;
    z = (z ^ (z >> 30)).wrapping_mul(0xBF58_476D_1CE4_E5B9);
    z = (z ^ (z >> 27)).wrapping_mul(0x94D0_49BB_1331_11EB);
    z ^ (z >> 31)
}

/// Non-atomic payload: reading it is a data race unless the publication ordered it.
struct Payload {
    a: Box<u64>,
    s: String,
}
impl Payload {
    fn new(x: u64) -> Payload {
        Payload { a: Box::new(x), s: format!("v{}", x) }
    }
    fn check(&self) -> u64 {
        let x = *self.a;
        assert_eq!(self.s, format!("v{}", x), "payload torn");
        x
    }
}

static LIVE: AtomicUsize = AtomicUsize::new(0);
struct Counted(Payload);
impl Counted {
    fn new(x: u64) -> Counted {
        LIVE.fetch_add(1, Ordering::Relaxed);
        Counted(Payload::new(x))
    }
}
impl Drop for Counted {
    fn drop(&mut self) {
        LIVE.fetch_sub(1, Ordering::Relaxed);
    }
}

/// writers publish payloads (insert / replace / compute / remove), readers observe them through
/// get, iteration and returned old values; tiny table so that resizes happen too
fn mixed(seed: u64, hash: u8, cap: usize, keys: u32, nthreads: usize, ops: usize, batch: usize) {
    let map: Arc<HashMap<u32, Counted, H>> = Arc::new(HashMap::with_capacity_and_hasher(cap, H(hash)).with_collector(seize::Collector::new().batch_size(batch)));
    {
        let g = map.guard();
        for k in 0..keys / 2 {
            map.insert(k, Counted::new(k as u64), &g);
        }
    }
    let mut hs = Vec::new();
    for t in 0..nthreads {
        let map = map.clone();
        hs.push(std::thread::spawn(move || {
            let mut s = seed ^ (t as u64 + 1).wrapping_mul(0xABCDEF);
            for i in 0..ops {
                let k = (rng(&mut s) % keys as u64) as u32;
                let g = map.guard();
                match rng(&mut s) % 8 {
                    0 | 1 => {
                        if let Some(old) = map.insert(k, Counted::new((t * 1000 + i) as u64), &g) {
                            old.0.check();
                        }
                    }
                    2 => {
                        if let Some(old) = map.remove(&k, &g) {
                            old.0.check();
                        }
                    }
                    3 => {
                        if let Some(v) = map.compute_if_present(&k, |_, v| Some(Counted::new(v.0.check() + 1)), &g) {
                            v.0.check();
                        }
                    }
                    4 => {
                        for (_, v) in map.iter(&g) {
                            v.0.check();
                        }
                    }
                    5 => {
                        if let Err(e) = map.try_insert(k, Counted::new(5), &g) {
                            e.current.0.check();
                            e.not_inserted.0.check();
                        }
                    }
                    _ => {
                        if let Some(v) = map.get(&k, &g) {
                            v.0.check();
                        }
                    }
                }
            }
        }));
    }
    for h in hs {
        h.join().unwrap();
    }
    drop(Arc::try_unwrap(map).ok().expect("sole owner"));
    assert_eq!(LIVE.load(Ordering::Relaxed), 0, "values leaked or dropped twice");
}

/// a resize copies entries into the new table while a reader follows forwarding pointers
fn forward(seed: u64) {
    let map: Arc<HashMap<u32, Counted, H>> = Arc::new(HashMap::with_capacity_and_hasher(0, H(0)).with_collector(seize::Collector::new().batch_size(2)));
    let keys: Vec<u32> = vec![1, 17, 33, 2, 18, 5, 21, 9];
    {
        let g = map.guard();
        for &k in &keys {
            map.insert(k, Counted::new(k as u64), &g);
        }
    }
    let m2 = map.clone();
    let resizer = std::thread::spawn(move || {
        let g = m2.guard();
        m2.reserve(20 + (seed % 3) as usize, &g);
    });
    let m3 = map.clone();
    let ks = keys.clone();
    let reader = std::thread::spawn(move || {
        for round in 0..3 {
            let g = m3.guard();
            for &k in &ks {
                if let Some((kk, v)) = m3.get_key_value(&k, &g) {
                    assert_eq!(*kk, k);
                    assert_eq!(v.0.check(), k as u64);
                }
            }
            if round == 1 {
                for (_, v) in m3.iter(&g) {
                    v.0.check();
                }
            }
        }
    });
    resizer.join().unwrap();
    reader.join().unwrap();
    drop(Arc::try_unwrap(map).ok().expect("sole owner"));
    assert_eq!(LIVE.load(Ordering::Relaxed), 0, "values leaked or dropped twice");
}

/// bulk construction with and without a size hint, colliding and not
fn collect(seed: u64) {
    let mut s = seed;
    DEFAULT_KIND.with(|c| c.set((rng(&mut s) % 3) as u8));
    let n = 9 + rng(&mut s) % 40;
    let hint = rng(&mut s) % 2 == 0;
    let pairs: Vec<(u32, Counted)> = (0..n).map(|i| (i as u32, Counted::new(i))).collect();
    let m: HashMap<u32, Counted, H> = if hint { pairs.into_iter().collect() } else { pairs.into_iter().filter(|_| true).collect() };
    {
        let g = m.guard();
        for (_, v) in m.iter(&g) {
            v.0.check();
        }
        assert_eq!(m.len() as u64, n);
    }
    drop(m);
    assert_eq!(LIVE.load(Ordering::Relaxed), 0, "values leaked or dropped twice");
}

fn main() {
    let args: Vec<String> = std::env::args().collect();
    let scenario = args.get(1).map(|s| s.as_str()).unwrap_or("publish");
    let seed: u64 = args.get(2).and_then(|s| s.parse().ok()).unwrap_or(1);
    match scenario {
        // list bins, no resize: pure publication paths (CAS into empty bin, append, value swap)
        "publish" => mixed(seed, 3, 20, 6, 3, 5, 1),
        // 2-bin table: every few inserts resize; readers follow forwarding pointers
        "resize" => mixed(seed, 2, 1, 12, 3, 5, 1),
        // all keys collide in a 64-bin table: treeify / tree insert / untreeify
        "tree" => mixed(seed, 1, 42, 11, 2, 6, 2),
        "collect" => collect(seed),
        "forward" => forward(seed),
        other => panic!("unknown scenario {}", other),
    }
}
