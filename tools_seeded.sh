#!/bin/bash
# tools_seeded.sh <PROP> <VARIANT> [check-prop ...]
# SEED_FEATURES=serde,rayon : features the demonstration needs; SEED_PROFILE=release : profile it needs
# Confirms a seeded change produced by a sub-agent in its scratch worktree (/tmp/wt/<PROP>/out/<VARIANT>):
#   1. the patch applies to /repo HEAD, 2. demo fails with it / passes without it (scratch worktree),
#   3. the existing suite passes with it, 4. runs the given checks (default: <PROP>) against it in /repo,
# then stores everything under /verif/seeded/<PROP>-<VARIANT>/ and restores /repo.
set -u
P=$1; V=$2; shift 2
CHECKS=${@:-$P}
WT=/tmp/wt/$P
OUT=$WT/out/$V
DST=/verif/seeded/$P-$V
export CARGO_NET_OFFLINE=true CARGO_TARGET_DIR=$WT/target
[ -f $OUT/patch.diff ] || { echo "no patch at $OUT"; exit 2; }
mkdir -p $DST
cp $OUT/patch.diff $DST/patch.diff
cp $OUT/demo.rs $DST/demo.rs 2>/dev/null
cp $OUT/notes.md $DST/notes.md 2>/dev/null
cd $WT && git checkout -q -- src && git clean -fdq tests 2>/dev/null
# bring the scratch worktree to /repo's HEAD so that the patch is judged against the current tree
git checkout -q --detach $(git -C /repo rev-parse HEAD) 2>/dev/null
if ! git apply --check $DST/patch.diff 2>/dev/null; then echo "PATCH DOES NOT APPLY to HEAD"; echo '{"status":"patch does not apply"}' > $DST/meta.json; exit 3; fi
if [ -f $OUT/demo.diff ]; then
  cp $OUT/demo.diff $DST/demo.diff
  git apply $DST/demo.diff || { echo "demo.diff does not apply"; exit 3; }
  demo() { timeout 600 cargo test --offline --lib c14_ >/tmp/wt/demo_$P$V.log 2>&1; echo $?; }
else
  cp $DST/demo.rs tests/seeded_demo.rs
  demo() { timeout 600 cargo test --offline ${SEED_FEATURES:+--features $SEED_FEATURES} ${SEED_PROFILE:+--$SEED_PROFILE} --test seeded_demo >/tmp/wt/demo_$P$V.log 2>&1; echo $?; }
fi
D0=$(demo)                       # without the change
git apply $DST/patch.diff
D1=$(demo)                       # with the change
rm -f tests/seeded_demo.rs
timeout 900 cargo test --workspace --no-fail-fast --offline >/tmp/wt/suite_$P$V.log 2>&1; S1=$?
SUITE=$(grep -E "^test result" /tmp/wt/suite_$P$V.log | awk '{p+=$4; f+=$6} END {print p" passed, "f" failed"}')
git checkout -q -- src
echo "demo without change: exit $D0 (want 0); demo with change: exit $D1 (want != 0); suite with change: exit $S1 ($SUITE)"
# now the checks, against /repo itself
cd /repo && git apply $DST/patch.diff || { echo "apply to /repo failed"; exit 3; }
RES=""
for c in $CHECKS; do
  T0=$(date +%s)
  OUTP=$(cd /verif && env -u CARGO_TARGET_DIR timeout 1500 ./check $c quick 2>&1); RC=$?
  T1=$(date +%s)
  LINE=$(echo "$OUTP" | grep -E "^VIOLATION|^OK |harness error" | head -1)
  CLASS=$(echo "$OUTP" | grep -E "^violation candidate" | head -1)
  echo "check $c quick -> exit $RC in $((T1-T0))s: $LINE $CLASS"
  echo "$OUTP" | tail -25 > $DST/check_$c.log
  RES="$RES{\"check\":\"$c\",\"tier\":\"quick\",\"exit\":$RC,\"seconds\":$((T1-T0)),\"line\":\"$(echo $LINE | sed 's/"/\\"/g')\"},"
done
git -C /repo checkout -- . 
cat > $DST/meta.json <<EOM
{
 "property": "$P",
 "variant": "$V",
 "base_commit": "$(git -C /repo rev-parse --short HEAD)",
 "demo_without_change_exit": $D0,
 "demo_with_change_exit": $D1,
 "suite_with_change_exit": $S1,
 "suite_with_change": "$SUITE",
 "commands": ["git apply patch.diff (scratch worktree /tmp/wt/$P at /repo's HEAD)", "cargo test --offline --test seeded_demo (demo.rs copied to tests/seeded_demo.rs)", "cargo test --workspace --no-fail-fast --offline", "git -C /repo apply patch.diff; ./check <id> quick; git -C /repo checkout -- ."],
 "checks": [${RES%,}]
}
EOM
cd /verif/sim && env -u CARGO_TARGET_DIR cargo build --release --offline >/dev/null 2>&1
echo "stored in $DST"
