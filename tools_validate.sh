#!/bin/bash
# Full validation of the machinery (about 2 h on 16 cores): every stored seeded change is still caught,
# no alarm on the 15 behaviour-preserving changes, determinism selfcheck, 5-seed sweep on the unchanged tree.
# Modifies /repo temporarily (applies and reverts patches): run nothing else against /repo meanwhile.
cd "$(dirname "$0")" || exit 2
echo "== recheck"; ./tools_recheck.sh 2>&1 | grep -v "exit 1" 
echo "== benign"; for d in benign/B*/; do ./tools_benign.sh /verif/${d%/} 2>&1 | grep -E "ALARM|benign|candidate|VIOLATION|does not apply|harness"; done
echo "== selfcheck"; ./check selfcheck 3000 2>&1 | tail -2
echo "== sweep"; ./tools_seedsweep.sh 1 2 3 5 7 2>&1 | tail -8
echo "== all done"
