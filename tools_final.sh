#!/bin/sh
# Regenerates every evidence file from quick runs in /verif against /repo (default seed) and
# validates them against the schema. Run before committing evidence.
cd "$(dirname "$0")" || exit 2
IDS=$(python3 -c "import json; print(' '.join(c['property_id'] for c in json.load(open('MANIFEST.json'))['checks']))")
rc_all=0
for id in $IDS; do
  ./check $id quick > /tmp/final_$id.log 2>&1; rc=$?
  echo "$id exit=$rc $(grep -E '^OK|^VIOLATION|^KNOWN' /tmp/final_$id.log | head -2 | tr '\n' ' ')"
  [ $rc -ne 0 ] && rc_all=1
done
python3-vt - <<'PY'
import json, jsonschema, glob
sch = json.load(open('/root/.vp/EVIDENCE.schema.json'))
for f in sorted(glob.glob('/verif/evidence/*.json')):
    try:
        jsonschema.validate(json.load(open(f)), sch); print('valid', f)
    except Exception as e:
        print('INVALID', f, str(e)[:200])
PY
exit $rc_all
