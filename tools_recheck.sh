#!/bin/bash
# tools_recheck.sh [dir ...] : re-runs, for every stored seeded change, the quick check(s) that caught
# it (per its meta.json) against /repo's current HEAD with the patch applied; restores /repo.
# Prints one line per (change, check). Exit 0 if every change is still caught by at least one check.
cd "$(dirname "$0")" || exit 2
DIRS=${@:-$(ls -d seeded/*/ | sed 's#/$##')}
git -C /repo diff --quiet || { echo "/repo has uncommitted changes"; exit 2; }
missed=0
for d in $DIRS; do
  [ -f $d/meta.json ] || continue
  CH=$(python3 -c "
import json,sys
m=json.load(open('$d/meta.json'))
print(' '.join(sorted({c['check'] for c in m.get('checks',[]) if c.get('exit')==1})))")
  [ -z "$CH" ] && { echo "$d: no catching check recorded (skipped)"; continue; }
  if ! git -C /repo apply --check $PWD/$d/patch.diff 2>/dev/null; then echo "$d: PATCH DOES NOT APPLY"; missed=$((missed+1)); continue; fi
  git -C /repo apply $PWD/$d/patch.diff
  caught=0
  for c in $CH; do
    out=$(VERIF_NO_MINIMISE=1 VERIF_NO_MIRI=1 timeout 1500 ./check $c quick 2>&1); rc=$?
    cls=$(echo "$out" | grep -E "^violation candidate" | head -1 | sed 's/violation candidate: //')
    echo "$d: check $c -> exit $rc $cls"
    [ $rc -eq 1 ] && caught=1
  done
  git -C /repo checkout -- .
  [ $caught -eq 0 ] && { echo "$d: NOT CAUGHT ANY MORE"; missed=$((missed+1)); }
done
echo "recheck finished: $missed changes not caught"
[ $missed -eq 0 ]
